"""C17 -- the UART link delivers every byte once, unchanged and in order; the line is 8N1 (DESIGN.md section C17).

System under monitor (wiring exactly as in py4hw/emulation/HILWrapperUART.py, with rx looped to tx):

    producer --ready/valid/v--> UARTSerializer --tx--> ClockGenerationAndRecovery + UARTDeserializer --ready/valid/v--> consumer

The harness only drives s_valid/s_v/d_ready and records, once per system clock (after settling, before the edge),
the boundary wires s_valid s_ready s_v tx d_valid d_ready d_v and the rx_sample wire that the wrapper itself routes
between the recovery block and the deserializer.  Three deterministic oracles judge the recording offline:

  delivery   accepted = cycles with s_valid & s_ready, delivered = cycles with d_valid & d_ready;
             delivered sequence == accepted sequence, byte k delivered after and within 16 bit periods of its acceptance
  line       an independent software 8N1 receiver over the tx trace (idle high, falling edge, start bit low at 0.5,
             data sampled at 1.5 .. 8.5 bit periods LSB first, stop bit high at 9.5) recovers the accepted sequence
  sampling   every rx_sample pulse that falls inside a frame on the line lies in the central half of its bit cell
             (needed because in a synchronous loop-back a receiver sampling at a cell edge can still deliver)

bit period = the divider's realised period 2*floor(f_sys / (2*f_uart)) system clocks.
"""
import time

from .common import muted, rng, shard_slice

LEVEL = 'exploration'
RULE = ('loop-back runs of the real serializer/clock-recovery/deserializer over (f_sys/f_uart request 4..40 incl. odd and '
        'non-integer, a geometric boundary family 2**k-2..2**k+2 up to 2**14 (thorough 2**17) and real clock/baud pairs up to 10416 (thorough 41666), '
        'one long-lived link of > 2**16 uart ticks (thorough 16 links > 2**17), byte sequence, producer gap schedule, oblivious receiver ready schedule, instantiation order); '
        'an evaluation is one accepted byte judged by the delivery and the line oracle; a non-trivial distinct case is '
        '(ratio request, byte value, previous byte value, phase of the acceptance cycle within the bit period, gap mode, '
        'ready mode) -- every accepted byte exercises framing, so all are non-trivial; distinct by content')
SHARDS = {'quick': 1, 'thorough': 16}
TIMEOUT = {'quick': 600, 'thorough': 3000}
MIN_NONTRIVIAL = {'quick': 2000, 'thorough': 50000}

LATENCY_BOUND_BITS = 16          # accepted -> delivered, in bit periods (probe: worst 11.75)
STALL_TOLERATED_BITS = 8         # longest receiver stall used by the stall pacing classes, in bit periods (see run_check)
TAKE_WINDOW_BITS = 14            # take-delay sweeps: a byte is held at most this long after it completed (bursts: 11)
STALL_BOUND_BITS = 16            # a byte offered this long without being accepted = producer stalled (inconclusive)
QUICK_RATIOS = [(4, 1), (5, 1), (6, 1), (8, 1), (16, 1)]
WIDE_RATIOS = [(4, 1), (17, 4), (9, 2), (5, 1), (6, 1), (7, 1), (8, 1), (9, 1), (10, 1), (50e6, 115200 * 40), (12, 1),
               (13, 1), (16, 1), (25, 1), (33, 2), (40, 1)]
FU_VARIANTS = [1, 2, 115200, 1e6, 3]          # the same ratio requested through different (f_sys, f_uart) float pairs
REAL_PAIRS = [(50e6, 115200), (100e6, 921600), (12e6, 115200), (25e6, 1e6), (48e6, 3e6), (27e6, 1e6), (14.7456e6, 115200),
              (16e6, 1.5e6), (29e6, 2e6), (50e6, 230400 * 8)]
# large-ratio family: around every power of two 2**k (the divider's counter gets one bit wider there) and real clock / baud pairs
# (k >= 12 in quick, k >= 14 in thorough: one offset per k and one byte / two bytes per run -- a byte costs ~10.5 * 2**k system clocks)
LARGE_K = {'quick': range(6, 15), 'thorough': range(6, 18)}
LARGE_BANDS = {'quick': range(6, 15), 'thorough': range(6, 18)}     # bit periods around 2**k that must have been observed (real pairs included)
LARGE_OFFSETS = [-2, -1, 0, 1, 2]
LARGE_REAL = {'quick': [(50e6, 9600), (100e6, 9600)],
              'thorough': [(50e6, 9600), (100e6, 115200), (12e6, 9600), (50e6, 19200), (100e6, 9600), (25e6, 57600), (100e6, 4800), (200e6, 9600), (100e6, 2400)]}
# long-lived links: one link instance carries traffic for more uart clock ticks than any 8/10/12/16(/17)-bit counter can hold
LONG_TICKS = {'quick': 2 ** 16 + 2 ** 12, 'thorough': 2 ** 17 + 2 ** 12}
SPECIAL_BYTES = [0x00, 0xFF, 0x55, 0xAA, 0x01, 0x80, 0x7F, 0xFE, 0x0F, 0xF0]


# --------------------------------------------------------------------------------------------- system under monitor

def realised_period(fs, fu):
    """2*floor(f_sys/(2*f_uart)) system clocks per bit, computed here (not read from the block)."""
    return 2 * int(fs / (2 * fu))


def ratio_class(fs, fu):
    r = fs / fu
    if r != int(r):
        return 'fractional'
    return 'odd' if int(r) % 2 else 'even'


def build(fs, fu, order=0):
    import py4hw
    from py4hw.logic.protocol.uart.serdes import UARTSerializer, UARTDeserializer
    from py4hw.logic.protocol.uart.clock import ClockGenerationAndRecovery
    hw = py4hw.HWSystem()
    W = dict(s_ready=hw.wire('ser_ready'), s_valid=hw.wire('ser_valid'), s_v=hw.wire('ser_v', 8), tx=hw.wire('tx'),
             pulse=hw.wire('tx_clk_pulse'), rx_sample=hw.wire('rx_sample'), desync=hw.wire('desync'),
             d_ready=hw.wire('ready_req'), d_valid=hw.wire('valid_req'), d_v=hw.wire('c_req', 8))

    def clk():
        ClockGenerationAndRecovery(hw, 'uart_clock', W['tx'], W['desync'], W['pulse'], W['rx_sample'], fs, fu)

    def des():
        UARTDeserializer(hw, 'des', W['tx'], W['rx_sample'], W['d_ready'], W['d_valid'], W['d_v'], W['desync'])

    def ser():
        UARTSerializer(hw, 'ser', W['s_ready'], W['s_valid'], W['s_v'], W['pulse'], W['tx'])

    with muted():
        for f in ([clk, des, ser], [ser, clk, des], [des, ser, clk])[order % 3]:   # order 0 = the wrapper's
            f()
        sim = hw.getSimulator()
    return hw, sim, W


_ENV = []


def env_classes():
    """Clocked environment blocks (py4hw Logic, so the simulator decides in which order they and the UART blocks are clocked).
    ByteSource: ready/valid producer; a byte is transferred on an edge where the valid it drives and the ready it reads are
    both 1; it keeps its own list of what it believes was accepted.  ByteSink: consumer whose ready follows a schedule that
    is a function of time only; it keeps its own list of what it received."""
    if _ENV:
        return _ENV[0]
    import py4hw

    class ByteSource(py4hw.Logic):
        def __init__(self, parent, name, data, gaps, ready, valid, v):
            super().__init__(parent, name)
            self.ready = self.addIn('ready', ready)
            self.valid = self.addOut('valid', valid)
            self.v = self.addOut('v', v)
            self.data, self.gaps = data, gaps
            self.pos = 0
            self.offering = False
            self.wait = gaps[0] if gaps else 0
            self.t = 0
            self.accepted = []
            self.last_progress = 0

        def clock(self):
            self.t += 1
            if self.offering and self.ready.get():
                self.accepted.append(self.data[self.pos])
                self.offering = False
                self.pos += 1
                self.last_progress = self.t
                self.wait = self.gaps[self.pos] if self.pos < len(self.gaps) else 0
            if self.offering:
                self.valid.prepare(1)
            elif self.pos < len(self.data) and self.wait == 0:
                self.valid.prepare(1)
                self.v.prepare(self.data[self.pos])
                self.offering = True
            else:
                self.valid.prepare(0)
                self.v.prepare(garbage(self.t))
                if self.wait > 0:
                    self.wait -= 1

    class ByteSink(py4hw.Logic):
        def __init__(self, parent, name, schedule, ready, valid, v):
            super().__init__(parent, name)
            self.ready = self.addOut('ready', ready)
            self.valid = self.addIn('valid', valid)
            self.v = self.addIn('v', v)
            self.schedule = schedule
            self.t = 0
            self.cur = 0
            self.got = []

        def clock(self):
            if self.cur and self.valid.get():
                self.got.append(self.v.get())
            self.cur = self.schedule.next(self.t)
            self.t += 1
            self.ready.prepare(self.cur)

    _ENV.append((ByteSource, ByteSink))
    return _ENV[0]


def simulate_blocks(case, rnd=None):
    """The same link, but both ready/valid ports are driven from inside the design by clocked blocks that are instantiated before
    or after the UART block they talk to (case['env'] = {producer: before|after, consumer: before|after}).  The recording is
    the same boundary recording as in simulate(); in addition each environment block reports its own view of the transfers."""
    import py4hw
    from py4hw.logic.protocol.uart.serdes import UARTSerializer, UARTDeserializer
    from py4hw.logic.protocol.uart.clock import ClockGenerationAndRecovery
    ByteSource, ByteSink = env_classes()
    fs, fu = case['fs'], case['fu']
    period = realised_period(fs, fu)
    rd, env = case['ready'], case['env']
    schedule = Ready(rd['mode'], rd['maxgap'], rnd, case.get('ready_rle'))
    hw = py4hw.HWSystem()
    W = _link_wires(hw, '')
    box = {}

    def src():
        box['src'] = ByteSource(hw, 'src', list(case['data']), list(case['gaps']), W['s_ready'], W['s_valid'], W['s_v'])

    def sink():
        box['sink'] = ByteSink(hw, 'sink', schedule, W['d_ready'], W['d_valid'], W['d_v'])

    link = [lambda: ClockGenerationAndRecovery(hw, 'uart_clock', W['tx'], W['desync'], W['pulse'], W['rx_sample'], fs, fu),
            lambda: UARTDeserializer(hw, 'des', W['tx'], W['rx_sample'], W['d_ready'], W['d_valid'], W['d_v'], W['desync']),
            lambda: UARTSerializer(hw, 'ser', W['s_ready'], W['s_valid'], W['s_v'], W['pulse'], W['tx'])]
    k = case.get('order', 0) % 3
    seq = ([src] if env['producer'] == 'before' else []) + ([sink] if env['consumer'] == 'before' else []) + link[k:] + link[:k] + \
          ([src] if env['producer'] == 'after' else []) + ([sink] if env['consumer'] == 'after' else [])
    with muted():
        for f in seq:
            f()
        sim = hw.getSimulator()
    source = box['src']
    tr = dict(sv=[], sr=[], sd=[], tx=[], dv=[], dr=[], dd=[], rs=[])
    cols = [(tr[a], W[b]) for a, b in (('sv', 's_valid'), ('sr', 's_ready'), ('sd', 's_v'), ('tx', 'tx'), ('dv', 'd_valid'),
                                         ('dr', 'd_ready'), ('dd', 'd_v'), ('rs', 'rx_sample'))]
    bound_bits = LATENCY_BOUND_BITS + rd.get('stall_bits', 0)
    tail = (bound_bits + 4) * period
    give_up = (STALL_BOUND_BITS + 14) * period + max(case['gaps'] or [0]) + 8
    stall = None
    t = 0
    with muted():
        while True:
            for col, w in cols:
                col.append(w.get())
            sim.clk(1)
            t += 1
            if source.pos >= len(case['data']):
                if t > source.last_progress + tail:
                    break
            elif t - source.last_progress > give_up:
                stall = dict(byte_index=source.pos, offered_at=source.last_progress, gave_up_at=t)
                break
    tr['period'], tr['bound_bits'], tr['stall'], tr['cycles'] = period, bound_bits, stall, len(tr['tx'])
    tr['src_accepted'] = list(source.accepted)
    tr['sink_got'] = list(box['sink'].got)
    return tr


def simulate_msggen(case, rnd=None):
    """Transmitter class: the library's UARTMsgGenerator (MsgSequencer + flow control + its own divider + UARTSerializer) drives
    the line; ClockGenerationAndRecovery + UARTDeserializer receive it.  The accepted bytes are tapped at the ready/valid port
    of the serializer inside the generator (which message bytes the sequencer chooses to send is not C17's business).  The
    generator never stops, so the run records judge_n + 2 acceptances and only the first judge_n bytes are judged."""
    import py4hw
    from py4hw.logic.protocol.uart.serdes import UARTDeserializer
    from py4hw.logic.protocol.uart.clock import ClockGenerationAndRecovery
    from py4hw.logic.protocol.uart.sequencer import UARTMsgGenerator
    fs, fu = case['fs'], case['fu']
    period = realised_period(fs, fu)
    rd = case['ready']
    ready = Ready(rd['mode'], rd['maxgap'], rnd, case.get('ready_rle'))
    n = case['judge_n']
    hw = py4hw.HWSystem()
    W = _link_wires(hw, '')
    msg = ''.join(chr(x) for x in case['data'])
    with muted():
        if case.get('order', 0) % 2 == 0:
            gen = UARTMsgGenerator(hw, 'gen', W['tx'], fs, fu, msg)
        ClockGenerationAndRecovery(hw, 'uart_clock', W['tx'], W['desync'], W['pulse'], W['rx_sample'], fs, fu)
        UARTDeserializer(hw, 'des', W['tx'], W['rx_sample'], W['d_ready'], W['d_valid'], W['d_v'], W['desync'])
        if case.get('order', 0) % 2 == 1:
            gen = UARTMsgGenerator(hw, 'gen', W['tx'], fs, fu, msg)
        sim = hw.getSimulator()
    ser = gen.children['ser']
    tr = dict(sv=[], sr=[], sd=[], tx=[], dv=[], dr=[], dd=[], rs=[])
    cols = [(tr['sv'], ser.valid), (tr['sr'], ser.ready), (tr['sd'], ser.v), (tr['tx'], W['tx']), (tr['dv'], W['d_valid']),
            (tr['dr'], W['d_ready']), (tr['dd'], W['d_v']), (tr['rs'], W['rx_sample'])]
    bound_bits = LATENCY_BOUND_BITS + rd.get('stall_bits', 0)
    cap = (n + 6) * 14 * period + 60 * period
    seen = 0
    stop_at = None
    t = 0
    with muted():
        while t < cap:
            W['d_ready'].put(ready.next(t))
            for col, w in cols:
                col.append(w.get())
            if tr['sv'][-1] and tr['sr'][-1]:
                seen += 1
                if seen == n + 2:
                    stop_at = t + 4 * period
            sim.clk(1)
            t += 1
            if stop_at is not None and t > stop_at:
                break
    tr['period'], tr['bound_bits'], tr['cycles'] = period, bound_bits, len(tr['tx'])
    tr['stall'] = None if seen >= n + 2 else dict(byte_index=seen, offered_at=0, gave_up_at=t)
    tr['judge_n'] = n
    return tr


def garbage(t):
    """what the producer leaves on s_v while s_valid is low (a function of the cycle, so replays need no storage)."""
    return (t * 0x9D + 0x3B) & 0xFF


class Ready:
    """Receiver ready schedule, a function of time only (never of d_valid). Low runs <= maxgap cycles."""

    def __init__(self, mode, maxgap, rnd=None, rle=None):
        self.mode, self.maxgap, self.rnd = mode, maxgap, rnd
        self.low = 0
        self.k = 0
        self.bits = None
        if rle is not None:
            self.bits = []
            v = 1
            for n in rle:
                self.bits += [v] * n
                v ^= 1

    def next(self, t):
        if self.bits is not None:
            return self.bits[t] if t < len(self.bits) else 1
        if self.mode == 'always' or self.maxgap == 0:
            return 1
        if self.mode == 'worst':       # one cycle high, maxgap cycles low
            self.k = (self.k + 1) % (self.maxgap + 1)
            return 1 if self.k == 1 % (self.maxgap + 1) else 0
        if self.low > 0:
            self.low -= 1
            return 0
        if self.rnd.random() < 0.35:
            self.low = self.rnd.randrange(0, self.maxgap + 1)
        return 1


def rle(bits):
    """run lengths, starting with a run of ones (possibly empty)."""
    out = []
    v, n = 1, 0
    for b in bits:
        if b == v:
            n += 1
        else:
            out.append(n)
            v, n = b, 1
    out.append(n)
    return out


def eof_stall_schedule(case, rnd):
    """'ready low from end-of-frame for 2..8 bit periods, then high': a dry run with an always-ready receiver gives the
    cycles at which each byte completes (ready cannot influence the transmit side, so they are the same in the real
    run); the schedule built from them is a function of time only."""
    period = realised_period(case['fs'], case['fu'])
    dry = simulate(dict(case, ready=dict(mode='always', maxgap=0), ready_rle=None), None)
    dl = [t for t in range(dry['cycles']) if dry['dv'][t] and dry['dr'][t]]
    bits = [1] * (dry['cycles'] + (STALL_TOLERATED_BITS + 2) * period)
    for t in dl:
        if rnd.random() < 0.15:
            continue
        L = rnd.randrange(2 * period, STALL_TOLERATED_BITS * period + 1)
        for u in range(max(0, t - 2 - rnd.randrange(0, 3)), t - 2 + L):     # the finished byte is loaded at the edge before t-1
            bits[u] = 0
    return rle(bits)


def take_schedule(case, rnd):
    """Per-frame sweep of the cycle at which the consumer takes a byte, across the whole legal window up to and including the
    last legal cycle.  A dry run with an always-ready receiver gives the handshake cycle h[k] of every byte (the byte
    completes on the edge of cycle e[k] = h[k]-1 and, ready being high, valid rises on the same edge; ready cannot influence the transmit side, so e[k] is the same in the real run).
    Byte k may be taken at any cycle from h[k] up to and including e[k+1], the cycle on whose edge byte k+1 completes (the
    block hands the old byte over on that very edge and keeps valid high for the new one); one cycle later the old byte is
    overwritten, which is outside the property (no back-pressure).  ready is low except where the schedule needs it:
      late_take: high at T-1 (the block raises valid) and at T (hand-over)
      withdraw : high at h[k] (valid rises one cycle after completion), withdrawn, high again at T only
    T = last legal cycle - j, j swept cycle by cycle (full), over the last five cycles (edge) or random."""
    rd = case['ready']
    period = realised_period(case['fs'], case['fu'])
    dry = simulate(dict(case, ready=dict(mode='always', maxgap=0), ready_rle=None), None)
    h = [t for t in range(dry['cycles']) if dry['dv'][t] and dry['dr'][t]]
    cap = TAKE_WINDOW_BITS * period
    bits = [0] * (dry['cycles'] + cap + 4 * period)
    over = rd.get('overshoot', 0)          # experiments only: > 0 takes after the last legal cycle
    for k, hk in enumerate(h):
        e = hk - 1
        last = h[k + 1] - 1 if k + 1 < len(h) else e + 11 * period
        last = min(last, e + cap)
        first = hk if rd['mode'] == 'late_take' else hk + 1      # withdraw: valid is only up from h[k]+1
        W = max(0, last - first)
        if rd['sweep'] == 'full':
            j = k % (W + 1)
        elif rd['sweep'] == 'edge':
            j = min(W, k % 5)
        else:
            j = rnd.randrange(0, W + 1)
        T = last - j + over
        if rd['mode'] == 'late_take':
            bits[T - 1] = 1
            bits[T] = 1
        else:
            bits[hk] = 1
            bits[T] = 1
    for u in range(len(bits) - 2 * period, len(bits)):
        bits[u] = 1
    return rle(bits)


def simulate(case, rnd=None):
    """Run the real blocks on one case; returns the recorded per-cycle traces.

    case: fs, fu, order, data (bytes), gaps (idle cycles before byte i is offered, counted from the cycle after the previous
    acceptance; 0 = valid held), ready = {mode, maxgap} (+ ready_rle for an explicit schedule)."""
    if case.get('env'):
        return simulate_blocks(case, rnd)
    if case.get('tx') == 'msggen':
        return simulate_msggen(case, rnd)
    fs, fu = case['fs'], case['fu']
    period = realised_period(fs, fu)
    data, gaps = case['data'], case['gaps']
    rd = case['ready']
    ready_rle = case.get('ready_rle')
    if rd['mode'] == 'eof_stall' and ready_rle is None:
        ready_rle = eof_stall_schedule(case, rnd)
    if rd['mode'] in ('late_take', 'withdraw') and ready_rle is None:
        ready_rle = take_schedule(case, rnd)
    ready = Ready(rd['mode'], rd['maxgap'], rnd, ready_rle)
    hw, sim, W = build(fs, fu, case.get('order', 0))
    s_valid, s_v, s_ready, txw = W['s_valid'], W['s_v'], W['s_ready'], W['tx']
    d_ready, d_valid, d_v, rsw = W['d_ready'], W['d_valid'], W['d_v'], W['rx_sample']
    tr = dict(sv=[], sr=[], sd=[], tx=[], dv=[], dr=[], dd=[], rs=[])
    sv, sr, sd, tx, dv, dr, dd, rs = (tr[k] for k in ('sv', 'sr', 'sd', 'tx', 'dv', 'dr', 'dd', 'rs'))
    i = 0
    gap = gaps[0] if gaps else 0
    offered_since = None
    last_acc = None
    bound_bits = LATENCY_BOUND_BITS + rd.get('stall_bits', 0)      # the deadline is extended by the longest receiver stall
    tail = int((bound_bits + case.get('tail_slack_bits', 4)) * period)      # recorded after the last acceptance (> the deadline)
    stall = None
    t = 0
    with muted():
        while True:
            if i < len(data) and gap == 0:
                s_valid.put(1)
                s_v.put(data[i])
                if offered_since is None:
                    offered_since = t
            else:
                s_valid.put(0)
                s_v.put(garbage(t))
                if gap > 0:
                    gap -= 1
            d_ready.put(ready.next(t))
            a = s_valid.get() & s_ready.get()
            sv.append(s_valid.get()); sr.append(s_ready.get()); sd.append(s_v.get()); tx.append(txw.get())
            dv.append(d_valid.get()); dr.append(d_ready.get()); dd.append(d_v.get()); rs.append(rsw.get())
            sim.clk(1)
            if a:
                last_acc = t
                i += 1
                offered_since = None
                gap = gaps[i] if i < len(gaps) else 0
            elif offered_since is not None and t - offered_since > STALL_BOUND_BITS * period:
                stall = dict(byte_index=i, offered_at=offered_since, gave_up_at=t)
                break
            t += 1
            if i >= len(data) and (last_acc is None or t > last_acc + tail):
                break
    tr['period'] = period
    tr['bound_bits'] = bound_bits
    tr['stall'] = stall
    tr['cycles'] = len(tx)
    return tr


# --------------------------------------------------------------------------------------------- several links alive at once

def _link_wires(hw, sfx):
    return dict(s_ready=hw.wire('ser_ready' + sfx), s_valid=hw.wire('ser_valid' + sfx), s_v=hw.wire('ser_v' + sfx, 8),
                tx=hw.wire('tx' + sfx), pulse=hw.wire('tx_clk_pulse' + sfx), rx_sample=hw.wire('rx_sample' + sfx),
                desync=hw.wire('desync' + sfx), d_ready=hw.wire('ready_req' + sfx), d_valid=hw.wire('valid_req' + sfx),
                d_v=hw.wire('c_req' + sfx, 8))


def build_group(group):
    """topology parallel: N independent loop-back links (own ratio each) in ONE HWSystem;
    duplex: two end points A and B in one HWSystem, each with its own ClockGenerationAndRecovery (tx pulse for its serializer,
            recovery for its deserializer), link 0 = A->B, link 1 = B->A, independent traffic and pacing;
    two_systems: one loop-back link in each of two HWSystems, stepped alternately in the same process.
    Returns (list of simulators, list of wire dicts, one per link)."""
    import py4hw
    from py4hw.logic.protocol.uart.serdes import UARTSerializer, UARTDeserializer
    from py4hw.logic.protocol.uart.clock import ClockGenerationAndRecovery
    ch = group['channels']
    sims, Ws = [], []
    with muted():
        if group['topology'] == 'duplex':
            hw = py4hw.HWSystem()
            W0, W1 = _link_wires(hw, '_ab'), _link_wires(hw, '_ba')
            # end point A transmits on link 0 and receives link 1; its request is the transmit request of link 0
            ClockGenerationAndRecovery(hw, 'uart_clock_a', W1['tx'], W1['desync'], W0['pulse'], W1['rx_sample'], ch[1]['fs'], ch[1]['fu'])
            ClockGenerationAndRecovery(hw, 'uart_clock_b', W0['tx'], W0['desync'], W1['pulse'], W0['rx_sample'], ch[0]['fs'], ch[0]['fu'])
            UARTDeserializer(hw, 'des_a', W1['tx'], W1['rx_sample'], W1['d_ready'], W1['d_valid'], W1['d_v'], W1['desync'])
            UARTSerializer(hw, 'ser_a', W0['s_ready'], W0['s_valid'], W0['s_v'], W0['pulse'], W0['tx'])
            UARTDeserializer(hw, 'des_b', W0['tx'], W0['rx_sample'], W0['d_ready'], W0['d_valid'], W0['d_v'], W0['desync'])
            UARTSerializer(hw, 'ser_b', W1['s_ready'], W1['s_valid'], W1['s_v'], W1['pulse'], W1['tx'])
            sims, Ws = [hw.getSimulator()], [W0, W1]
        else:
            hw = None
            for i, c in enumerate(ch):
                if hw is None or group['topology'] == 'two_systems':
                    hw = py4hw.HWSystem()
                    hws = hw
                W = _link_wires(hw, '_%d' % i)
                parts = [lambda W=W, c=c, i=i: ClockGenerationAndRecovery(hw, 'uart_clock_%d' % i, W['tx'], W['desync'], W['pulse'], W['rx_sample'], c['fs'], c['fu']),
                         lambda W=W, i=i: UARTDeserializer(hw, 'des_%d' % i, W['tx'], W['rx_sample'], W['d_ready'], W['d_valid'], W['d_v'], W['desync']),
                         lambda W=W, i=i: UARTSerializer(hw, 'ser_%d' % i, W['s_ready'], W['s_valid'], W['s_v'], W['pulse'], W['tx'])]
                k = c.get('order', 0) % 3
                for f in parts[k:] + parts[:k]:
                    f()
                Ws.append(W)
                if group['topology'] == 'two_systems':
                    sims.append(hw.getSimulator())
            if group['topology'] != 'two_systems':
                sims = [hw.getSimulator()]
    return sims, Ws


class _Chan:
    """producer / consumer environment and recorder of one link inside a group (same behaviour as in simulate())."""

    def __init__(self, case, W, rnd):
        self.case, self.W = case, W
        self.period = realised_period(case['fs'], case['fu'])
        rd = case['ready']
        self.ready = Ready(rd['mode'], rd['maxgap'], rnd, case.get('ready_rle'))
        self.bound_bits = LATENCY_BOUND_BITS + rd.get('stall_bits', 0)
        self.tail = (self.bound_bits + 4) * self.period
        self.tr = dict(sv=[], sr=[], sd=[], tx=[], dv=[], dr=[], dd=[], rs=[])
        self.i = 0
        self.gap = case['gaps'][0] if case['gaps'] else 0
        self.offered_since = None
        self.last_acc = None
        self.stall = None
        self.done = False
        self.a = 0

    def before(self, t):
        W, data = self.W, self.case['data']
        if self.i < len(data) and self.gap == 0 and self.stall is None:
            W['s_valid'].put(1)
            W['s_v'].put(data[self.i])
            if self.offered_since is None:
                self.offered_since = t
        else:
            W['s_valid'].put(0)
            W['s_v'].put(garbage(t))
            if self.gap > 0:
                self.gap -= 1
        W['d_ready'].put(self.ready.next(t))
        self.a = W['s_valid'].get() & W['s_ready'].get()
        tr = self.tr
        tr['sv'].append(W['s_valid'].get()); tr['sr'].append(W['s_ready'].get()); tr['sd'].append(W['s_v'].get())
        tr['tx'].append(W['tx'].get()); tr['dv'].append(W['d_valid'].get()); tr['dr'].append(W['d_ready'].get())
        tr['dd'].append(W['d_v'].get()); tr['rs'].append(W['rx_sample'].get())

    def after(self, t):
        data, gaps = self.case['data'], self.case['gaps']
        if self.a:
            self.last_acc = t
            self.i += 1
            self.offered_since = None
            self.gap = gaps[self.i] if self.i < len(gaps) else 0
        elif self.offered_since is not None and self.stall is None and t - self.offered_since > STALL_BOUND_BITS * self.period:
            self.stall = dict(byte_index=self.i, offered_at=self.offered_since, gave_up_at=t)
        if self.stall is not None or (self.i >= len(data) and (self.last_acc is None or t + 1 > self.last_acc + self.tail)):
            self.done = True


def simulate_group(group, rnds=None):
    """all links of the group are driven and recorded in the same cycles; returns one trace per link."""
    sims, Ws = build_group(group)
    chans = [_Chan(c, W, rnds[i] if rnds else None) for i, (c, W) in enumerate(zip(group['channels'], Ws))]
    t = 0
    with muted():
        while not all(c.done for c in chans):
            for c in chans:
                c.before(t)
            for sim in sims:               # two_systems: the systems advance alternately, one edge each
                sim.clk(1)
            for c in chans:
                c.after(t)
            t += 1
    out = []
    for c in chans:
        tr = c.tr
        tr['period'], tr['bound_bits'], tr['stall'], tr['cycles'] = c.period, c.bound_bits, c.stall, len(c.tr['tx'])
        out.append(tr)
    return out


# --------------------------------------------------------------------------------------------- oracles (pure, offline)

def soft_rx(tx, period):
    """Independent software 8N1 receiver: wait for a falling edge, check the start bit mid-cell, sample the eight data
    bits mid-cell LSB first, check the stop bit mid-cell, resume the edge search after the stop sample.
    Returns frames [(start_cycle, byte, problem or None)] and whether a frame was cut by the end of the trace."""
    frames = []
    n = len(tx)
    i = 1
    half = period // 2           # period is even by construction
    cut = False
    while i < n:
        if tx[i - 1] == 1 and tx[i] == 0:
            s = i
            stop = s + 9 * period + half
            if stop >= n:
                cut = True
                break
            problem = None
            if tx[s + half] != 0:
                problem = 'start_bit_not_low'
            b = 0
            for k in range(8):
                b |= tx[s + (k + 1) * period + half] << k
            if tx[stop] != 1 and problem is None:
                problem = 'stop_bit_not_high'
            frames.append((s, b, problem))
            i = stop + 1
        else:
            i += 1
    return frames, cut


def bitrev(b):
    return int('{:08b}'.format(b)[::-1], 2)


def relation(exp, got):
    """How an observed byte relates to the expected one (classifier field; names the mechanism, not the case)."""
    if got == exp:
        return 'equal'
    if got == bitrev(exp):
        return 'bit_reversed'
    if got == (~exp) & 0xFF:
        return 'inverted'
    if got == exp >> 1 or got == (exp >> 1) | 0x80:
        return 'shifted_right_1'
    if got == (exp << 1) & 0xFF or got == ((exp << 1) & 0xFF) | 1:
        return 'shifted_left_1'
    if got == exp & 0x7F:
        return 'msb_lost'
    if got == exp & 0xFE:
        return 'lsb_lost'
    return 'other'


def first_divergence(exp, got):
    """Compare two byte sequences; None if equal, else (index, kind, relation) for the first discrepancy:
    lost / duplicated / spurious / corrupt / missing_tail / extra_tail."""
    n = min(len(exp), len(got))
    for k in range(n):
        if exp[k] != got[k]:
            look = 6
            if got[k:k + look] == exp[k + 1:k + 1 + look][:len(got[k:k + look])] and len(got) < len(exp):
                return k, 'lost', 'none'
            if k > 0 and got[k] == exp[k - 1] and got[k + 1:k + 1 + look] == exp[k:k + look][:len(got[k + 1:k + 1 + look])]:
                return k, 'duplicated', 'none'
            if got[k + 1:k + 1 + look] == exp[k:k + look][:len(got[k + 1:k + 1 + look])] and len(got) > len(exp):
                return k, 'spurious', 'none'
            return k, 'corrupt', relation(exp[k], got[k])
    if len(got) < len(exp):
        return n, 'missing_tail', 'none'
    if len(got) > len(exp):
        return n, 'extra_tail', 'none'
    return None


def judge(tr):
    """All three oracles over one recorded run.  Returns (findings, observations).  A finding is a dict
    (clause, kind, relation, index, expected, observed, what)."""
    period = tr['period']
    sv, sr, sd, tx, dv, dr, dd, rs = (tr[k] for k in ('sv', 'sr', 'sd', 'tx', 'dv', 'dr', 'dd', 'rs'))
    n = len(tx)
    acc = [(t, sd[t]) for t in range(n) if sv[t] and sr[t]]
    dlv = [(t, dd[t]) for t in range(n) if dv[t] and dr[t]]
    jn = tr.get('judge_n')          # open-ended transmitter: only the first jn bytes are judged
    if jn is not None:
        acc, dlv = acc[:jn], dlv[:jn]
    accv = [v for _, v in acc]
    dlvv = [v for _, v in dlv]
    findings = []
    obs = dict(accepted=len(acc), delivered=len(dlv))

    # ---- both sides of each ready/valid port agree on what was transferred (environment blocks inside the design)
    for name, theirs, mine, clause_kind in (('producer', tr.get('src_accepted'), accv, 'producer_view_differs'),
                                            ('consumer', tr.get('sink_got'), dlvv, 'consumer_view_differs')):
        if theirs is not None and theirs != mine:
            k = next((i for i in range(min(len(theirs), len(mine))) if theirs[i] != mine[i]), min(len(theirs), len(mine)))
            rel = 'block_counts_fewer' if len(theirs) < len(mine) else 'block_counts_more' if len(theirs) > len(mine) else 'values_differ'
            findings.append(dict(clause='port', kind=clause_kind, relation=rel, index=k, expected=mine[max(0, k - 1):k + 3],
                                 observed=theirs[max(0, k - 1):k + 3],
                                 what='the clocked %s block counts %d transfers, %d handshakes are visible on the port at the cycle boundaries; '
                                      'first difference at transfer %d: port %s, block %s' % (
                                          name, len(theirs), len(mine), k, [hex(x) for x in mine[max(0, k - 1):k + 3]],
                                          [hex(x) for x in theirs[max(0, k - 1):k + 3]])))
    obs['env_transfers_cross_checked'] = (len(tr['src_accepted']) + len(tr['sink_got'])) if tr.get('src_accepted') is not None else 0
    # ---- delivery: same sequence
    d = first_divergence(accv, dlvv)
    if d is not None:
        k, kind, rel = d
        findings.append(dict(clause='delivery', kind=kind, relation=rel, index=k,
                             expected=accv[max(0, k - 1):k + 3], observed=dlvv[max(0, k - 1):k + 3],
                             what='delivered sequence differs from accepted at byte %d (%s%s): accepted %s delivered %s' % (
                                 k, kind, '' if rel == 'none' else '/' + rel,
                                 [hex(x) for x in accv[max(0, k - 1):k + 3]], [hex(x) for x in dlvv[max(0, k - 1):k + 3]])))
    # ---- delivery: each byte after its acceptance and within the bound
    lat = []
    if d is None:
        for k in range(len(acc)):
            dt = dlv[k][0] - acc[k][0]
            lat.append(dt)
            if dt <= 0:
                findings.append(dict(clause='delivery', kind='before_acceptance', relation='none', index=k, expected='> 0',
                                     observed=dt, what='byte %d delivered %d cycles before/at its acceptance' % (k, -dt)))
                break
            if dt > tr.get('bound_bits', LATENCY_BOUND_BITS) * period:
                findings.append(dict(clause='delivery', kind='late', relation='none', index=k,
                                     expected='<= %d cycles' % (tr.get('bound_bits', LATENCY_BOUND_BITS) * period), observed=dt,
                                     what='byte %d delivered %d cycles (%.2f bit periods) after acceptance' % (k, dt, dt / period)))
                break
    obs['latencies'] = lat

    # ---- line: independent 8N1 receiver
    frames, cut = soft_rx(tx, period)
    if jn is not None:
        frames, cut = frames[:jn], False
    obs['frames'] = len(frames)
    linev = [b for _, b, _ in frames]
    bad = [(k, f) for k, f in enumerate(frames) if f[2] is not None]
    if bad:
        k, f = bad[0]
        findings.append(dict(clause='line', kind=f[2], relation='none', index=k, expected='8N1 frame', observed=f[2],
                             what='frame %d on the line starting at cycle %d: %s' % (k, f[0], f[2])))
    if cut:
        findings.append(dict(clause='line', kind='frame_cut_by_end_of_trace', relation='none', index=len(frames),
                             expected='line idle %d bit periods after the last acceptance' % LATENCY_BOUND_BITS,
                             observed='falling edge', what='a frame starts within 9.5 bit periods of the end of the recording'))
    d2 = first_divergence(accv, linev)
    if d2 is not None and not bad:
        k, kind, rel = d2
        findings.append(dict(clause='line', kind=kind, relation=rel, index=k, expected=accv[max(0, k - 1):k + 3],
                             observed=linev[max(0, k - 1):k + 3],
                             what='software 8N1 receiver differs from accepted at byte %d (%s%s): accepted %s line %s' % (
                                 k, kind, '' if rel == 'none' else '/' + rel,
                                 [hex(x) for x in accv[max(0, k - 1):k + 3]], [hex(x) for x in linev[max(0, k - 1):k + 3]])))
    if d2 is None and not bad:
        for k in range(len(acc)):      # the frame of byte k starts after its acceptance
            if frames[k][0] <= acc[k][0]:
                findings.append(dict(clause='line', kind='frame_before_acceptance', relation='none', index=k,
                                     expected='> %d' % acc[k][0], observed=frames[k][0],
                                     what='frame %d starts at cycle %d, byte accepted at %d' % (k, frames[k][0], acc[k][0])))
                break
    # ---- sampling: rx_sample pulses inside a frame sit in the central half of the bit cell
    phases = {}
    nsamp = 0
    if not bad and not cut:
        q = period // 4
        fi = 0
        for t in range(n):
            if not rs[t]:
                continue
            while fi + 1 < len(frames) and frames[fi + 1][0] <= t:
                fi += 1
            if not frames or t < frames[fi][0]:
                continue
            off = t - frames[fi][0]
            if off >= 10 * period:
                continue           # after the stop bit cell: not a data sample
            nsamp += 1
            ph = off % period
            phases[ph] = phases.get(ph, 0) + 1
            if not (q <= ph <= period - q):
                findings.append(dict(clause='sampling', kind='rx_sample_off_centre', relation='none', index=fi,
                                     expected='offset within bit cell in [%d, %d] of %d' % (q, period - q, period), observed=ph,
                                     what='rx_sample at cycle %d is %d cycles into a %d-cycle bit cell of frame %d' % (t, ph, period, fi)))
                break
    obs['rx_samples_in_frames'] = nsamp
    obs['valid_held_acceptances'] = sum(1 for t, _ in acc if t > 0 and sv[t - 1] and not sr[t - 1])
    obs['sample_phases'] = phases
    obs['acc'] = acc
    return findings, obs


# --------------------------------------------------------------------------------------------- workload

def make_gaps(mode, n, period, rnd):
    byte_time = 10 * period
    if mode == 'none':
        return [0] * n
    if mode == 'one':
        return [1] * n
    if mode == 'phase':           # sweep the phase of the offer relative to the baud pulse
        return [rnd.randrange(0, 2 * period + 2) for _ in range(n)]
    if mode == 'mixed':
        return [rnd.choice([0, 0, 1, 2, rnd.randrange(0, period + 2), rnd.randrange(0, 3 * byte_time + 1)]) for _ in range(n)]
    return [rnd.randrange(0, 3 * byte_time + 1) for _ in range(n)]      # 'rand': up to 3 byte times


def make_data(kind, n, rnd):
    if kind == 'perm256':
        d = list(range(256))
        rnd.shuffle(d)
        return d
    if kind == 'repeats':          # few values, many immediate repeats
        alpha = rnd.sample(SPECIAL_BYTES, 3) + [rnd.getrandbits(8)]
        out = []
        while len(out) < n:
            out += [rnd.choice(alpha)] * rnd.randrange(1, 4)
        return out[:n]
    if kind == 'toggle':           # every bit cell differs from its neighbour, then random
        return ([0x55, 0xAA, rnd.getrandbits(8), 0xAA, 0x55, rnd.getrandbits(8)] * ((n + 5) // 6))[:n]
    if kind == 'special':
        return [rnd.choice(SPECIAL_BYTES) for _ in range(n)]
    return [rnd.getrandbits(8) for _ in range(n)]


def plan_large_ratios(tier, rnd):
    """Geometric / boundary family of LARGE ratios ("every ratio of at least 4"): 2**k + {-2..2} for every k up to 14 (quick: two
    of the five offsets per k, drawn per seed; one for k >= 11, one byte per run for k >= 12) / 17 (thorough: all five up to 13, one above), plus real clock / baud pairs up to
    100 MHz / 9600 (= 10416 clocks per bit, quick) / 100 MHz / 2400 (thorough).  A byte costs ~11 bit periods, so each run carries few bytes (quick: 3 below 1000
    clocks per bit, 2 above; thorough 4), always with a back-to-back pair, every other run with offer-phase gaps."""
    specs = []
    j = 0
    for k in LARGE_K[tier]:
        if tier == 'quick':
            offs = sorted(rnd.sample(LARGE_OFFSETS, 1 if k >= 11 else 2))
        else:
            offs = LARGE_OFFSETS if k <= 13 else rnd.sample(LARGE_OFFSETS, 1)
        for o in offs:
            r = 2 ** k + o
            fu = FU_VARIANTS[j % len(FU_VARIANTS)]
            n = (4 if k <= 13 else 2) if tier != 'quick' else 3 if r < 1000 else 2 if r < 4000 else 1
            specs.append(dict(fs=r * fu, fu=fu, kind=['random', 'special', 'toggle'][j % 3], n=n, gap=['none', 'phase'][j % 2],
                              ready=['always', 'rand', 'always', 'worst'][j % 4], order=j % 3, cls='large_ratio', tail_slack_bits=0.25))
            j += 1
    for fs, fu in LARGE_REAL[tier]:
        specs.append(dict(fs=fs, fu=fu, kind='random', n=(2 if fs / fu < 8000 else 1) if tier == 'quick' else 4 if fs / fu < 16000 else 2, gap=['none', 'phase'][j % 2], ready='always',
                          order=j % 3, cls='large_ratio', tail_slack_bits=0.25))
        j += 1
    return specs


def plan_long_lived(tier, rnd):
    """LONG-LIVED links ("every byte", whatever the history): ONE link instance stays alive for more than 2**16 (quick) / 2**17
    (thorough) uart clock ticks, i.e. past the wrap-around of any 8/10/12/16-bit counter of ticks, bits, bytes or clocks inside
    the blocks.  quick: one run at the fastest legal ratio, back-to-back, receiver always ready (the cheapest way to get
    there); thorough: 16 runs over ratios 4..8, all gap modes and receiver pacings."""
    specs = []
    if tier == 'quick':
        specs.append(dict(fs=4, fu=1, kind='random', n=LONG_TICKS[tier] // 11 + 1, gap='none', ready='always', order=0, cls='long_lived'))
    else:
        gapm = ['none', 'one', 'mixed', 'phase']
        for j in range(16):
            r = [4, 4, 5, 6, 4, 8, 4, 5][j % 8]
            g = gapm[j % 4]
            specs.append(dict(fs=r, fu=1, kind=['random', 'repeats', 'special'][j % 3], n=LONG_TICKS[tier] // 11 + 1, gap=g,      # >= 11 ticks per byte
                              ready=['always', 'rand', 'worst', 'rand_long'][(j // 4) % 4], order=j % 3, cls='long_lived'))
    return specs


def plan(tier, seed):
    """The list of case specifications (deterministic given tier and seed); data/gaps are expanded per case."""
    rnd = rng(seed, 'C17', 'plan', tier)
    specs = []
    gapmodes = ['none', 'one', 'rand', 'phase', 'mixed']
    readymodes = ['always', 'rand', 'worst']
    if tier == 'quick':
        for fs, fu in WIDE_RATIOS:          # all 256 values, valid held (back-to-back), receiver always ready
            specs.append(dict(fs=fs, fu=fu, kind='perm256', n=256, gap='none', ready='always', order=0))
        for k, (fs, fu) in enumerate(QUICK_RATIOS):      # all 256 values again, other gaps / receiver pacing / order
            specs.append(dict(fs=fs, fu=fu, kind='perm256', n=256, gap=['one', 'phase', 'mixed', 'one', 'phase'][k],
                              ready=['rand', 'worst', 'rand', 'worst', 'rand'][k], order=k % 3))
        j = 0
        for fs, fu in WIDE_RATIOS:
            for rep in range(4):
                specs.append(dict(fs=fs, fu=fu, kind=['repeats', 'random', 'special', 'repeats'][rep], n=20,
                                  gap=gapmodes[j % 5], ready=readymodes[(j // 5 + j) % 3], order=j % 3))
                j += 1
        for k, (fs, fu) in enumerate(WIDE_RATIOS):       # receiver stalls the real link tolerates (bursts and idle gaps)
            specs.append(dict(fs=fs, fu=fu, kind='random', n=24, gap='none', ready='eof_stall', order=k % 3))
            specs.append(dict(fs=fs, fu=fu, kind='repeats', n=24, gap=['none', 'one'][k % 2], ready='sparse', order=(k + 1) % 3))
            specs.append(dict(fs=fs, fu=fu, kind='random', n=16, gap=['mixed', 'rand', 'phase'][k % 3],
                              ready=['rand_long', 'eof_stall', 'sparse'][k % 3], order=(k + 2) % 3))
            specs.append(dict(fs=fs, fu=fu, kind='special', n=24, gap='none', ready='rand_long', order=k % 3))
        for k, (fs, fu) in enumerate(QUICK_RATIOS):      # take-delay swept cycle by cycle over the whole legal window
            specs.append(dict(fs=fs, fu=fu, kind='perm256', n=256, gap='none', ready='late_take', sweep='full', order=k % 3))
            specs.append(dict(fs=fs, fu=fu, kind='random', n=96, gap='none', ready='withdraw', sweep='full', order=(k + 1) % 3))
        for k, (fs, fu) in enumerate(WIDE_RATIOS):       # ... and over the last legal cycles, bursts and gaps
            specs.append(dict(fs=fs, fu=fu, kind='random', n=20, gap=['none', 'one', 'phase'][k % 3], ready='late_take', sweep='edge', order=k % 3))
            specs.append(dict(fs=fs, fu=fu, kind='repeats', n=20, gap=['none', 'mixed'][k % 2], ready='withdraw', sweep='edge', order=(k + 1) % 3))
            specs.append(dict(fs=fs, fu=fu, kind='special', n=20, gap=['rand', 'none'][k % 2], ready=['late_take', 'withdraw'][k % 2], sweep='rand',
                              order=(k + 2) % 3))
        placements = [dict(producer=a, consumer=b) for a in ('after', 'before') for b in ('after', 'before')]
        for k, (fs, fu) in enumerate(WIDE_RATIOS):       # both ports driven by clocked blocks placed before / after the UART blocks
            for m in range(2):
                specs.append(dict(fs=fs, fu=fu, kind=['random', 'repeats'][m], n=16, gap=gapmodes[(k + 2 * m) % 5],
                                  ready=['always', 'rand', 'worst', 'sparse', 'rand_long'][(k + m) % 5], order=(k + m) % 3,
                                  env=placements[(2 * k + m) % 4]))
        for k, r in enumerate(list(range(4, 41)) + [4.5, 10.85, 17.5]):      # the library's own message generator as the transmitter
            specs.append(dict(fs=r, fu=1, kind=['toggle', 'random', 'special'][k % 3], n=1 + k % 5, gap='none', tx='msggen', judge_n=6,
                              ready=['always', 'rand', 'worst'][k % 3], order=k % 2))
        for k, r2 in enumerate(range(8, 129)):           # every ratio 4.0, 4.5 .. 64.0 through varying float pairs
            fu = FU_VARIANTS[k % len(FU_VARIANTS)]
            specs.append(dict(fs=r2 * fu / 2, fu=fu, kind='toggle', n=6, gap=['none', 'none', 'one'][k % 3], ready=['always', 'rand'][k % 2], order=k % 3))
        for k, (fs, fu) in enumerate(REAL_PAIRS):        # real clock / baud pairs (ratios up to 434)
            specs.append(dict(fs=fs, fu=fu, kind='toggle', n=3 if fs / fu > 200 else 6, gap='none', ready='always', order=k % 3))
        specs += plan_large_ratios(tier, rnd)
        specs += plan_long_lived(tier, rnd)
    else:
        readymodes = readymodes + ['eof_stall', 'sparse', 'rand_long', 'late_take', 'withdraw']
        ratios = [(r, 1) for r in range(4, 41)] + [(17, 4), (9, 2), (50e6, 115200 * 40), (33, 2), (50e6, 115200 * 20), (123, 10)]
        for fs, fu in ratios:
            specs.append(dict(fs=fs, fu=fu, kind='perm256', n=256, gap='none', ready='always', order=0))
            specs.append(dict(fs=fs, fu=fu, kind='perm256', n=256, gap='phase', ready='worst', order=1))
            for j in range(250):
                specs.append(dict(fs=fs, fu=fu, kind=['repeats', 'random', 'special'][j % 3], n=40, gap=gapmodes[j % 5],
                                  ready=readymodes[(j // 5) % 8], sweep=['full', 'edge', 'rand'][(j // 40) % 3], order=j % 3))
            placements = [dict(producer=a, consumer=b) for a in ('after', 'before') for b in ('after', 'before')]
            for j in range(24):
                specs.append(dict(fs=fs, fu=fu, kind=['repeats', 'random', 'special'][j % 3], n=40, gap=gapmodes[j % 5],
                                  ready=['always', 'rand', 'worst', 'sparse', 'rand_long'][(j // 5) % 5], order=j % 3, env=placements[j % 4]))
            for j in range(6):
                specs.append(dict(fs=fs, fu=fu, kind=['toggle', 'random', 'special'][j % 3], n=1 + j % 5, gap='none', tx='msggen', judge_n=12,
                                  ready=['always', 'rand', 'worst', 'sparse', 'rand_long'][j % 5], order=j % 2))
        for k, r2 in enumerate(range(8, 129)):
            for v, fu in enumerate(FU_VARIANTS):
                specs.append(dict(fs=r2 * fu / 2, fu=fu, kind='toggle', n=12, gap=gapmodes[(k + v) % 5], ready=readymodes[(k + v) % 3], order=v % 3))
        for k, (fs, fu) in enumerate(REAL_PAIRS + [(50e6, 9600), (100e6, 115200)]):
            specs.append(dict(fs=fs, fu=fu, kind='toggle', n=4 if fs / fu > 200 else 12, gap='none', ready='always', order=k % 3))
        specs += plan_large_ratios(tier, rnd)
        specs += plan_long_lived(tier, rnd)
    for k, s in enumerate(specs):
        s['id'] = k
    return specs


DUPLEX_PAIRS = [((4, 1), (5, 1)), ((8, 1), (9, 1)), ((6, 1), (6, 1)), ((16, 1), (17, 1)), ((12, 1), (13, 1)), ((17, 4), (9, 2)),
                ((10, 1), (50e6, 115200 * 40)), ((24, 1), (25, 1)), ((40, 1), (40, 1))]
PARALLEL_SETS = [[(4, 1), (16, 1)], [(6, 1), (7, 1), (10, 1)], [(5, 1), (40, 1)], [(8, 1), (8, 1)], [(9, 1), (13, 1), (4, 1), (25, 1)],
                 [(12, 1), (33, 2)]]


def plan_groups(tier, seed):
    """compositions: 2+ links alive at the same time, each with its own traffic, gaps and pacing."""
    gapmodes = ['none', 'one', 'rand', 'phase', 'mixed']
    readymodes = ['always', 'rand', 'worst', 'sparse', 'rand_long']
    groups = []
    reps = 1 if tier == 'quick' else 40
    n = 24 if tier == 'quick' else 40
    for rep_ in range(reps):
        for k, (ra, rb) in enumerate(DUPLEX_PAIRS):
            groups.append(dict(topology='duplex', ratios=[ra, rb], n=n))
        for k, rs in enumerate(PARALLEL_SETS):
            groups.append(dict(topology='parallel', ratios=rs, n=n))
        for k, rs in enumerate(PARALLEL_SETS[:4]):
            groups.append(dict(topology='two_systems', ratios=rs[:2], n=n))
    for g, grp in enumerate(groups):
        grp['id'] = g
        grp['chan_specs'] = [dict(fs=fs, fu=fu, kind=['random', 'toggle', 'special', 'repeats'][(g + i) % 4], n=grp['n'],
                                  gap=gapmodes[(g + 2 * i) % 5], ready=readymodes[(g + 3 * i) % 5], order=(g + i) % 3, id=100000 + 10 * g + i)
                             for i, (fs, fu) in enumerate(grp['ratios'])]
    return groups


def expand_group(grp, seed):
    chans, rnds = [], []
    for cs in grp['chan_specs']:
        c, r = expand(cs, seed)
        chans.append(c)
        rnds.append(r)
    return dict(topology=grp['topology'], channels=chans), rnds


def run_group(run, group, rnds, agg):
    try:
        trs = simulate_group(group, rnds)
    except Exception as e:
        run.violation('c17_raises', dict(clause='raises', composition=group['topology']), group, observed=repr(e)[:300],
                      what='%s of %d links raises %r' % (group['topology'], len(group['channels']), e))
        return
    for c, tr in zip(group['channels'], trs):      # make the replay case self-contained
        c['ready_rle'] = rle(tr['dr'])
    run.count('compositions')
    agg['compositions'][group['topology']] = agg['compositions'].get(group['topology'], 0) + 1
    # cycles in which at least two links had a frame on the line at the same time (the thing a single link never shows)
    n = min(len(tr['tx']) for tr in trs)
    agg['overlap_cycles'] += sum(1 for t in range(n) if sum(1 for tr in trs if tr['tx'][t] == 0) >= 2)
    for i, (c, tr) in enumerate(zip(group['channels'], trs)):
        account(run, c, tr, agg, group, i)


def expand(spec, seed):
    rnd = rng(seed, 'C17', 'case', spec['id'], spec['fs'], spec['fu'])
    period = realised_period(spec['fs'], spec['fu'])
    data = make_data(spec['kind'], spec['n'], rnd)
    gaps = make_gaps(spec['gap'], len(data), period, rnd)
    rr = rng(seed, 'C17', 'readycfg', spec['id'])
    if spec['ready'] == 'eof_stall':       # low from end-of-frame for 2..8 bit periods, then high
        ready = dict(mode='eof_stall', name='eof_stall', maxgap=STALL_TOLERATED_BITS * period, stall_bits=STALL_TOLERATED_BITS + 1)
    elif spec['ready'] == 'sparse':        # ready for one clock every P clocks, P <= 4 bit periods (the block needs to see it twice)
        ready = dict(mode='worst', name='sparse', maxgap=rr.randrange(period, 4 * period + 1) - 1, stall_bits=STALL_TOLERATED_BITS + 1)
    elif spec['ready'] == 'rand_long':     # random not-ready runs up to 4 bit periods
        ready = dict(mode='rand', name='rand_long', maxgap=4 * period, stall_bits=STALL_TOLERATED_BITS + 1)
    elif spec['ready'] in ('late_take', 'withdraw'):      # per-frame sweep of the take cycle up to the last legal one
        ready = dict(mode=spec['ready'], name=spec['ready'] + '/' + spec.get('sweep', 'full'), sweep=spec.get('sweep', 'full'),
                     maxgap=TAKE_WINDOW_BITS * period, stall_bits=TAKE_WINDOW_BITS + 1)
    else:
        ready = dict(mode=spec['ready'], name=spec['ready'], maxgap=period // 2)
    case = dict(fs=spec['fs'], fu=spec['fu'], order=spec['order'], data=data, gaps=gaps,
                ready=ready, gap_mode=spec['gap'], kind=spec['kind'])
    if spec.get('env'):
        case['env'] = dict(spec['env'])
    if spec.get('cls'):
        case['cls'] = spec['cls']
    if spec.get('tail_slack_bits') is not None:
        case['tail_slack_bits'] = spec['tail_slack_bits']
    if spec.get('tx') == 'msggen':
        case['tx'] = 'msggen'
        case['judge_n'] = spec['judge_n']
        case['gap_mode'] = 'generator'
        case['gaps'] = []
    return case, rng(seed, 'C17', 'ready', spec['id'])


def shrink_for_replay(case, tr, finding):
    """The replay case: the same run cut after the failing byte, with the receiver schedule made explicit."""
    k = finding.get('index', len(case['data']))
    keep = len(case['data']) if case.get('tx') == 'msggen' else min(len(case['data']), k + 3)    # the message is a parameter, not traffic
    c = dict(case)
    c['data'] = case['data'][:keep]
    c['gaps'] = case['gaps'][:keep]
    c['ready_rle'] = rle(tr['dr'])
    return c


def report(run, case, tr, findings, group=None, chan=None):
    fs, fu = case['fs'], case['fu']
    if group is not None:           # a link that lives beside others: the replay case is the whole composition
        for f in findings[:2]:
            key = 'c17_%s_%s' % (f['clause'], f['kind'])
            fields = dict(clause=f['clause'], kind=f['kind'], relation=f['relation'], ratio_class=ratio_class(fs, fu),
                          gap_mode=case.get('gap_mode'), ready_mode=case['ready'].get('name', case['ready']['mode']),
                          composition=group['topology'])
            run.violation(key, fields, group, expected=f['expected'], observed=f['observed'],
                          what='%s of %d links, link %d fs/fu=%s/%s (bit period %d clocks) gap=%s ready=%s: %s' % (
                              group['topology'], len(group['channels']), chan, fs, fu, tr['period'], case.get('gap_mode'),
                              case['ready'].get('name', case['ready']['mode']), f['what']))
        return
    for f in findings[:2]:
        key = 'c17_%s_%s' % (f['clause'], f['kind'])
        fields = dict(clause=f['clause'], kind=f['kind'], relation=f['relation'], ratio_class=ratio_class(fs, fu),
                      gap_mode=case.get('gap_mode'), ready_mode=case['ready'].get('name', case['ready']['mode']))
        if case.get('env'):
            fields['env'] = 'producer_%s/consumer_%s' % (case['env']['producer'], case['env']['consumer'])
            f = dict(f, what='[clocked producer %s the serializer, clocked consumer %s the deserializer] ' % (
                case['env']['producer'], case['env']['consumer']) + f['what'])
        rc = shrink_for_replay(case, tr, f)
        run.violation(key, fields, rc, expected=f['expected'], observed=f['observed'],
                      what='fs/fu=%s/%s (bit period %d clocks) gap=%s ready=%s: %s' % (
                          fs, fu, tr['period'], case.get('gap_mode'), case['ready'].get('name', case['ready']['mode']), f['what']))


def run_case(run, case, rnd, agg):
    fs, fu = case['fs'], case['fu']
    try:
        tr = simulate(case, rnd)
    except Exception as e:
        run.violation('c17_raises', dict(clause='raises', ratio_class=ratio_class(fs, fu)), case, observed=repr(e)[:300],
                      what='fs/fu=%s/%s: the loop raises %r' % (fs, fu, e))
        return None
    return account(run, case, tr, agg)


def account(run, case, tr, agg, group=None, chan=None):
    """judge one recorded link and book what was observed."""
    fs, fu = case['fs'], case['fu']
    period = tr['period']
    run.count('cycles_simulated', tr['cycles'])
    if tr['stall'] is not None:
        run.count('runs_stalled')
        agg['stalls'].append(dict(fs=fs, fu=fu, **tr['stall']))
    findings, obs = judge(tr)
    run.ev(obs['accepted'])
    run.count('accepted', obs['accepted'])
    run.count('delivered', obs['delivered'])
    run.count('line_frames_decoded', obs['frames'])
    run.count('rx_samples_in_frames', obs['rx_samples_in_frames'])
    run.count('runs')
    acc = obs['acc']
    prev = -1
    rkey = '%s/%s' % (fs, fu)
    for t, v in acc:
        run.nt(hash((rkey, v, prev, t % period, case.get('gap_mode'), case['ready'].get('name', case['ready']['mode']))))
        prev = v
    agg['back_to_back'] += obs['valid_held_acceptances']
    for x in obs['latencies']:
        b = str(-(-x // period))
        agg['latency_hist'][b] = agg['latency_hist'].get(b, 0) + 1
    for ph, cnt in obs['sample_phases'].items():
        b = '%d/%d' % (ph, period)
        agg['sample_hist'][b] = agg['sample_hist'].get(b, 0) + cnt
    agg['acc_ratio'][rkey] = agg['acc_ratio'].get(rkey, 0) + obs['accepted']
    r = agg['per_ratio'].setdefault(rkey, dict(period=period, accepted=0, delivered=0, frames=0, max_latency_bits=0.0,
                                                values=set(), accept_phases=set(), sample_phases=set()))
    r['accepted'] += obs['accepted']
    r['delivered'] += obs['delivered']
    r['frames'] += obs['frames']
    r['values'].update(v for _, v in acc)
    r['accept_phases'].update(t % period for t, _ in acc)
    r['sample_phases'].update(obs['sample_phases'])
    if obs['latencies']:
        r['max_latency_bits'] = max(r['max_latency_bits'], max(obs['latencies']) / period)
    agg['gap_modes'][case.get('gap_mode')] = agg['gap_modes'].get(case.get('gap_mode'), 0) + obs['accepted']
    rname = case['ready'].get('name', case['ready']['mode'])
    agg['ready_modes'][rname] = agg['ready_modes'].get(rname, 0) + obs['accepted']
    if obs['latencies'] and case['ready'].get('stall_bits'):
        # bytes whose hand-off waited for ready for more than 2 bit periods while the next frame was on the line
        base = 12 * period
        agg['stalled_deliveries'] += sum(1 for x in obs['latencies'] if x > base + 2 * period)
    agg['ready_low_cycles'] += tr['dr'].count(0)
    if case.get('cls') == 'large_ratio':
        b = '2**%d..2**%d-1 clocks per bit' % (period.bit_length() - 1, period.bit_length())
        for f, x in (('runs', 1), ('accepted', obs['accepted']), ('delivered', obs['delivered']), ('line_frames', obs['frames']),
                     ('back_to_back', obs['valid_held_acceptances'])):
            agg['large']['%s: %s' % (b, f)] = agg['large'].get('%s: %s' % (b, f), 0) + x      # flat, so that shards add up
        agg['large_periods']['%d' % period] = agg['large_periods'].get('%d' % period, 0) + obs['delivered']
    if case.get('cls') == 'long_lived':
        agg['long']['%s/%s gap=%s ready=%s #%d' % (fs, fu, case.get('gap_mode'), rname, len(agg['long']))] = dict(
            bytes_accepted=obs['accepted'], bytes_delivered=obs['delivered'], line_frames=obs['frames'],
            uart_ticks=tr['cycles'] // period, system_clocks=tr['cycles'])
    if case.get('tx') == 'msggen':
        agg['msggen'] += obs['accepted']
    if case.get('env'):
        ek = 'producer_%s/consumer_%s' % (case['env']['producer'], case['env']['consumer'])
        agg['env'][ek] = agg['env'].get(ek, 0) + obs['env_transfers_cross_checked']
    if findings:
        report(run, case, tr, findings, group, chan)
    return tr, findings, obs


def run_check(run, tier, seed, shard):
    run.assume('bit period = the divider\'s realised period 2*floor(f_sys/(2*f_uart)) system clocks (the block prints a warning '
               'when this differs from the request); the software receiver samples at that period')
    run.assume('receiver ready schedules are functions of time only, never of valid; base classes (always, rand, worst) are never low '
               'for more than half a bit period; UART has no back-pressure, so a consumer that stays not-ready past the completion of '
               'the next byte is outside any satisfiable reading')
    run.assume('stall pacing classes (eof_stall: ready low from the end of a frame for 2..%d bit periods, then high; sparse: ready for one '
               'clock every <= 4 bit periods; rand_long: random not-ready runs <= 4 bit periods): the unchanged deserializer holds a '
               'finished byte while the next frame is received and must see ready twice (raise valid, hand over) before the next byte '
               'completes; in a back-to-back burst bytes complete exactly 11 bit periods apart (10-bit frame + the idle bit the '
               'serializer inserts), and the measured tolerance at every ratio 4..40 is a stall of 11 bit periods - 2 clocks from '
               'end of frame; the classes stay <= %d bit periods (+2 clocks), and the delivery deadline of these runs is extended '
               'by %d bit periods' % (STALL_TOLERATED_BITS, STALL_TOLERATED_BITS, STALL_TOLERATED_BITS + 1))
    run.assume('take-delay sweep classes (late_take, withdraw): a finished byte may be taken up to and including the cycle on whose edge '
               'the next byte completes (the unchanged block hands the old byte over on that edge and keeps valid for the new one; one '
               'cycle later it is overwritten, which is the no-back-pressure limit); the take cycle is swept cycle by cycle over that '
               'window (capped at %d bit periods after completion), the deadline of these runs is extended by %d bit periods' % (
                   TAKE_WINDOW_BITS, TAKE_WINDOW_BITS + 1))
    run.assume('environment placement classes: both ready/valid ports are also driven by clocked producer / consumer blocks inside the '
               'design, instantiated before and after the UART block they talk to (the simulator states that clocked blocks need no '
               'order); the transfers each block counts must equal the handshakes visible on the port at the cycle boundaries')
    run.assume('transmitter class: UARTMsgGenerator (messages of 1-5 bytes) as the tx side; accepted = handshakes at the ready/valid '
               'port of the serializer inside the generator (which message bytes the sequencer picks is not judged); the generator '
               'never stops, so the first 6 (quick) / 12 (thorough) bytes of each run are judged by all three oracles')
    run.assume('composition classes: several links alive at once (full duplex A<->B with one clock block per end point, N parallel '
               'loop-back links with different ratios in one HWSystem, two HWSystems stepped alternately); every link is judged by '
               'its own reference exactly as a single link is -- links share no wire, so they must not influence each other')
    run.assume('"later presented" is judged as bounded progress: delivered within %d bit periods of acceptance' % LATENCY_BOUND_BITS)
    run.assume('the producer keeps v stable while valid is high and unaccepted; v carries garbage while valid is low')
    run.assume('deserializer sampling is judged on the rx_sample wire: pulses inside a frame must lie in the central half of the '
               'bit cell (in a synchronous loop-back an edge-sampling receiver can still deliver, so delivery alone cannot see it)')
    specs = shard_slice(plan(tier, seed), shard)
    deadline = time.time() + (420 if tier == 'quick' else 2400)
    agg = dict(per_ratio={}, gap_modes={}, ready_modes={}, back_to_back=0, ready_low_cycles=0, stalls=[], latency_hist={}, stalled_deliveries=0,
               sample_hist={}, acc_ratio={}, compositions={}, overlap_cycles=0, env={}, msggen=0, large={}, large_periods={}, long={})
    skipped = 0
    for spec in specs:
        if time.time() > deadline:
            skipped += 1
            continue
        case, rnd = expand(spec, seed)
        res = run_case(run, case, rnd, agg)
        if res is not None and res[2]['accepted'] and len(run.samples) < 6 and spec['id'] % 7 == 0:
            tr, findings, obs = res
            run.sample(dict(fs=case['fs'], fu=case['fu'], bit_period=tr['period'], gap_mode=case['gap_mode'],
                            ready_mode=case['ready'].get('name', case['ready']['mode']), first_bytes=[hex(x) for x in case['data'][:6]],
                            accepted=obs['accepted'], delivered=obs['delivered'], line_frames=obs['frames'],
                            max_latency_bits=round(max(obs['latencies']) / tr['period'], 2) if obs['latencies'] else None,
                            cycles=tr['cycles']))
        if run.too_many:
            break
    for grp in shard_slice(plan_groups(tier, seed), shard):
        if time.time() > deadline:
            skipped += 1
            continue
        if run.too_many:
            break
        group, rnds = expand_group(grp, seed)
        run_group(run, group, rnds, agg)
    if skipped:
        run.inconclusive.append('watchdog: %d runs skipped' % skipped)
    if agg['stalls']:
        run.inconclusive.append('the serializer did not accept an offered byte within %d bit periods in %d runs (first: %s)' % (
            STALL_BOUND_BITS, len(agg['stalls']), agg['stalls'][0]))
    per = {}
    for k, r in agg['per_ratio'].items():
        per[k] = dict(bit_period=r['period'], accepted=r['accepted'], delivered=r['delivered'], line_frames=r['frames'],
                      max_latency_bits=round(r['max_latency_bits'], 2), distinct_values=len(r['values']),
                      distinct_accept_phases=len(r['accept_phases']), sample_offsets_in_cell=sorted(r['sample_phases']))
    if shard is None:
        run.extra['per_ratio'] = per
    run.extra['accepted_per_ratio_request'] = agg['acc_ratio']
    run.extra['latency_bit_periods_ceil_hist'] = agg['latency_hist']
    run.extra['rx_sample_offset_in_cell_hist'] = agg['sample_hist']
    run.extra['accepted_by_gap_mode'] = agg['gap_modes']
    run.extra['accepted_by_ready_mode'] = agg['ready_modes']
    run.extra['valid_held_acceptances'] = agg['back_to_back']
    run.extra['ready_low_cycles'] = agg['ready_low_cycles']
    run.extra['compositions_by_topology'] = agg['compositions']
    run.extra['bytes_judged_with_UARTMsgGenerator_as_transmitter'] = agg['msggen']
    run.extra['transfers_cross_checked_by_env_block_placement'] = agg['env']
    run.extra['cycles_with_two_links_mid_frame'] = agg['overlap_cycles']
    run.extra['deliveries_stalled_over_2_bit_periods'] = agg['stalled_deliveries']
    run.extra['large_ratio_class_by_band'] = agg['large']
    run.extra['large_ratio_class_delivered_by_bit_period'] = agg['large_periods']
    for k, d in agg['long'].items():
        run.extra['long_lived_link ' + ('' if shard is None else 'shard%d ' % shard[0]) + k] = d
    if shard is None:
        post_merge(run, tier, seed)


def post_merge(run, tier, seed):
    c = run.counters
    if not c.get('accepted') or not c.get('delivered') or not c.get('line_frames_decoded') or not c.get('rx_samples_in_frames'):
        run.inconclusive.append('a deciding monitor saw no event: accepted=%s delivered=%s line_frames=%s rx_samples=%s' % (
            c.get('accepted'), c.get('delivered'), c.get('line_frames_decoded'), c.get('rx_samples_in_frames')))
    if not run.extra.get('valid_held_acceptances'):
        run.inconclusive.append('no back-to-back acceptance was observed')
    if not run.extra.get('deliveries_stalled_over_2_bit_periods'):
        run.inconclusive.append('no delivery was ever stalled for more than 2 bit periods')
    if not run.extra.get('bytes_judged_with_UARTMsgGenerator_as_transmitter'):
        run.inconclusive.append('no byte was judged with UARTMsgGenerator as the transmitter')
    envs = run.extra.get('transfers_cross_checked_by_env_block_placement', {})
    if len([k for k, v in envs.items() if v]) < 4:
        run.inconclusive.append('clocked environment blocks were not observed in all four placements: %s' % envs)
    if not run.extra.get('cycles_with_two_links_mid_frame'):
        run.inconclusive.append('no cycle was observed in which two links were receiving at the same time')
    if not run.extra.get('ready_low_cycles'):
        run.inconclusive.append('the receiver was never not-ready')
    bands = run.extra.get('large_ratio_class_by_band', {})
    for k in LARGE_BANDS[tier]:
        # 2**k-1 and 2**k-2 realise a period just below 2**k
        if not (bands.get('2**%d..2**%d-1 clocks per bit: delivered' % (k, k + 1)) or bands.get('2**%d..2**%d-1 clocks per bit: delivered' % (k - 1, k))):
            run.inconclusive.append('large-ratio class: no byte was delivered at a bit period around 2**%d clocks' % k)
    if not sum(v for k, v in bands.items() if k.endswith(': back_to_back')):
        run.inconclusive.append('large-ratio class: no back-to-back acceptance')
    longs = [v for k, v in run.extra.items() if k.startswith('long_lived_link ')]
    best = max(longs, key=lambda d: d['uart_ticks']) if longs else dict(bytes_delivered=0, uart_ticks=0)
    run.extra['longest_single_link_history'] = dict(bytes=best['bytes_delivered'], uart_ticks=best['uart_ticks'], links=len(longs),
                                                     links_past_target=sum(1 for d in longs if d['uart_ticks'] >= LONG_TICKS[tier]))
    if best['uart_ticks'] < LONG_TICKS[tier] or best['bytes_delivered'] < LONG_TICKS[tier] // 16:
        run.inconclusive.append('long-lived class: the longest single link lived %d uart ticks / %d bytes (target %d ticks)' % (
            best['uart_ticks'], best['bytes_delivered'], LONG_TICKS[tier]))


def replay(run, case):
    c = case['case']
    if 'topology' in c:
        trs = simulate_group(c, None)
        bad = 0
        for i, tr in enumerate(trs):
            findings, obs = judge(tr)
            print('replay C17 %s link %d fs/fu=%s/%s: accepted %d delivered %d line frames %d' % (
                c['topology'], i, c['channels'][i]['fs'], c['channels'][i]['fu'], obs['accepted'], obs['delivered'], obs['frames']))
            for f in findings:
                print('  ', f['clause'], f['kind'], f['what'])
            bad += len(findings)
        if bad:
            print('VIOLATION property=C17 replay=replayed')
        return 1 if bad else 0
    tr = simulate(c, None)
    findings, obs = judge(tr)
    print('replay C17 fs/fu=%s/%s bit period %d: accepted %d delivered %d line frames %d' % (
        c['fs'], c['fu'], tr['period'], obs['accepted'], obs['delivered'], obs['frames']))
    for f in findings:
        print('  ', f['clause'], f['kind'], f['what'])
    if findings:
        print('VIOLATION property=C17 replay=replayed')
    return 1 if findings else 0
