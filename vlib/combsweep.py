"""Reference-model monitor for combinational catalogue blocks (C07, C08).

The real block is built under a fresh HWSystem, undriven input wires are poked with Wire.put,
Simulator.propagateAll() runs the real evaluation, outputs are read with Wire.get() and judged by
the independent integer reference of the catalogue entry.
"""
import time

from . import catalog
from .common import muted, mask, rng, shard_slice


def sweep_entry(run, entry, cfgs, rnd, tier, deadline):
    import py4hw
    exhaustive_bits = 12 if tier == 'quick' else 14
    max_cases = 400 if tier == 'quick' else 12000
    n_random = 40 if tier == 'quick' else 4000
    nconf = 0
    for cfg in cfgs:
        if time.time() > deadline:
            run.count('configs_skipped_watchdog')
            continue
        hw = py4hw.HWSystem()
        try:
            with muted():
                ins, outs = entry.build(hw, cfg, hw.wire)
                sim = hw.getSimulator()
        except Exception as e:
            # a configuration the catalogue calls legal must build; not building is reported
            run.violation('%s_build_raises' % entry.prop.lower(), dict(block=entry.name),
                          dict(block=entry.name, cfg=cfg), observed=repr(e)[:200], what='%s%r does not build: %r' % (entry.name, cfg, e))
            continue
        nconf += 1
        run.count('configs')
        widths = [w.getWidth() for w in ins]
        ow = [o.getWidth() for o in outs]
        cases, exhaustive = catalog.input_cases(widths, rnd, exhaustive_bits, max_cases, n_random)
        if exhaustive:
            run.count('configs_exhaustive')
        nbad = 0
        first = True
        for vals in cases:
            if entry.domain is not None and not entry.domain(cfg, vals):
                run.count('outside_documented_domain')
                continue
            for w, v in zip(ins, vals):
                w.put(v)
            try:
                sim.propagateAll()
            except Exception as e:
                run.violation('%s_sim_raises' % entry.prop.lower(), dict(block=entry.name),
                              dict(block=entry.name, cfg=cfg, inputs=vals), observed=repr(e)[:200],
                              what='%s%r raises in propagate: %r' % (entry.name, cfg, e))
                break
            exp = entry.ref(cfg, vals)
            got = [o.get() for o in outs]
            run.ev()
            reduced = False
            ok = True
            for k, e_ in enumerate(exp):
                if e_ is None:
                    continue
                m = mask(e_, ow[k])
                if m != e_:
                    reduced = True
                if m != got[k]:
                    ok = False
                    run.violation('%s_value' % entry.prop.lower(), dict(block=entry.name, out=k),
                                  dict(block=entry.name, cfg=cfg, inputs=vals, out=k), expected=m, observed=got[k],
                                  what='%s%r inputs=%r out[%d] expected %d got %d' % (entry.name, cfg, vals, k, m, got[k]))
                    break
            if not ok:
                nbad += 1
                if nbad >= 3:
                    break
            if reduced or any(vals) or not vals:
                run.nt(hash((entry.name, cfg, tuple(vals))))
            if first:
                first = False
            if run.evaluations % 9973 == 0:
                run.sample(dict(block=entry.name, cfg=cfg, inputs=vals, expected=[None if e is None else mask(e, w) for e, w in zip(exp, ow)], observed=got))
        if run.too_many:
            break
    return nconf


def run_prop(run, prop, tier, seed, shard, seconds):
    entries = catalog.by_prop(prop)
    deadline = time.time() + seconds
    per_block = {}
    for entry in entries:
        cfgs = entry.configs(tier)
        cfgs = shard_slice(cfgs, shard)
        rnd = rng(seed, prop, entry.name, shard)
        e0 = run.evaluations
        n = sweep_entry(run, entry, cfgs, rnd, tier, deadline)
        per_block[entry.name] = dict(configs=n, evaluations=run.evaluations - e0)
        if n:
            run.sample(dict(block=entry.name, first_cfg=cfgs[0], configs=n))
        if run.too_many:
            break
    run.extra['per_block'] = per_block
    run.extra['blocks'] = len(entries)
    if shard is None or shard[0] == 0:
        zero = [k for k, v in per_block.items() if v['evaluations'] == 0]
        # every catalogue block must have been evaluated at least once, else the run decided nothing for it
        if shard is None and zero:
            run.inconclusive.append('blocks never evaluated: %s' % zero)
    if run.counters.get('configs_skipped_watchdog'):
        run.inconclusive.append('watchdog: %d configurations skipped' % run.counters['configs_skipped_watchdog'])
