"""Reference-model monitor for combinational catalogue blocks (C07, C08).

The real block is built under a fresh HWSystem, undriven input wires are poked with Wire.put,
Simulator.propagateAll() runs the real evaluation, outputs are read with Wire.get() and judged by
the independent integer reference of the catalogue entry.
"""
import collections
import time

from . import catalog
from .common import muted, mask, rng, shard_slice


def build_aliased(entry, cfg, mode):
    """Build entry with input ports of equal width connected to one shared wire (all of them, or adjacent pairs).
    Returns (ins, outs, sim, hw) with ins in port order (the shared wire repeated), or (None, reason, None, None)."""
    import py4hw
    hw0 = py4hw.HWSystem()
    calls = []

    def mk0(name, w):
        x = hw0.wire(name, w)
        calls.append(x)
        return x
    try:
        with muted():
            ins0, outs0 = entry.build(hw0, cfg, mk0)
    except Exception:
        return None, 'plain_build_failed', None, None
    is_in = [any(c is i for i in ins0) for c in calls]
    hw = py4hw.HWSystem()
    made = []
    state = dict(k=0, by_width={})

    def mk(name, w):
        k = state['k']
        state['k'] += 1
        if k < len(is_in) and is_in[k]:
            lst = state['by_width'].setdefault(w, [])
            lst.append(None)
            n = len(lst) - 1
            share = n > 0 if mode == 'alias_all' else n % 2 == 1
            if share:
                x = lst[0] if mode == 'alias_all' else lst[n - 1]
                lst[n] = x
                state['shared'] = True
                return x
            x = hw.wire(name, w)
            lst[n] = x
            return x
        return hw.wire(name, w)
    try:
        with muted():
            ins, outs = entry.build(hw, cfg, mk)
            if not state.get('shared'):
                return None, 'nothing_to_share', None, None
            sim = hw.getSimulator()
    except Exception:
        return None, 'refused', None, None
    return ins, outs, sim, hw


def sweep_entry(run, entry, cfgs, rnd, tier, deadline, hostile=None):
    import py4hw
    import contextlib
    exhaustive_bits = 12 if tier == 'quick' else 14
    max_cases = 400 if tier == 'quick' else 12000
    n_random = 40 if tier == 'quick' else 4000
    if hostile:
        exhaustive_bits, max_cases, n_random = 8, 96 if tier == 'quick' else 600, 24 if tier == 'quick' else 200
    extra = (dict(shared_inputs=hostile) if hostile.startswith('alias') else dict(late_drivers=True) if hostile == 'late_drivers' else dict(caller_list=hostile)) if hostile else {}
    nconf = 0
    for cfg in cfgs:
        if time.time() > deadline:
            run.count('configs_skipped_watchdog')
            continue
        hw = py4hw.HWSystem()
        try:
            if hostile and hostile.startswith('alias'):
                ins, outs, sim, hw = build_aliased(entry, cfg, hostile)
                if ins is None:
                    run.count('aliased_build_' + outs)
                    continue
                run.count('configs_with_shared_input_wires')
            elif hostile == 'late_drivers':
                # every input of the block is driven by a buffer created AFTER the block: the evaluation order must come from the
                # ports the block registered, not from the order of creation
                with muted():
                    ins, outs = entry.build(hw, cfg, hw.wire)
                    drv = []
                    for k, w in enumerate(ins):
                        d = hw.wire('drv%d' % k, w.getWidth())
                        py4hw.Buf(hw, 'drvbuf%d' % k, d, w)
                        drv.append(d)
                    ins = drv
                    sim = hw.getSimulator()
                run.count('configs_with_late_drivers')
            else:
                with muted(), (catalog.hostile_lists(hostile) if hostile else contextlib.nullcontext()) as hl:
                    ins, outs = entry.build(hw, cfg, hw.wire)
                    sim = hw.getSimulator()
            if hostile and not hostile.startswith('alias') and hostile != 'late_drivers':
                if not hl.lists_seen:
                    continue          # no list argument: nothing new to observe
                run.count('configs_with_caller_list_reused')
        except Exception as e:
            # a configuration the catalogue calls legal must build; not building is reported
            run.violation('%s_build_raises' % entry.prop.lower(), dict(block=entry.name),
                          dict(block=entry.name, cfg=cfg, **extra), observed=repr(e)[:200], what='%s%r does not build: %r' % (entry.name, cfg, e))
            continue
        nconf += 1
        run.count('configs')
        expand = None
        if hostile and hostile.startswith('alias'):
            # one value per distinct wire; the reference sees it on every port that wire is connected to
            uniq = []
            for w in ins:
                if not any(w is u for u in uniq):
                    uniq.append(w)
            expand = [next(k for k, u in enumerate(uniq) if u is w) for w in ins]
            ins = uniq
        widths = [w.getWidth() for w in ins]
        ow = [o.getWidth() for o in outs]
        cases, exhaustive = catalog.input_cases(widths, rnd, exhaustive_bits, max_cases, n_random)
        if exhaustive:
            run.count('configs_exhaustive')
        nbad = 0
        first = True
        # configuration classes of the catalogue (control wire wider than one bit, constant parameter at a boundary): what was judged
        klass = catalog.classify(entry.name, cfg) if not hostile else []
        ctl = catalog.CONTROL_PINS[entry.name](cfg) if 'wide_control' in klass else []
        kc = dict(evals=0, ctl_ge2=0, ctl_odd_ge3=0, reduced=0, ctl_outside_domain=0)
        for vals in cases:
            for w, v in zip(ins, vals):
                w.put(v)
            if expand is not None:
                vals = tuple(vals[k] for k in expand)
            if entry.domain is not None and not entry.domain(cfg, vals):
                run.count('outside_documented_domain')
                if ctl and any(vals[k] >= 2 for k in ctl):
                    kc['ctl_outside_domain'] += 1
                continue
            try:
                sim.propagateAll()
            except Exception as e:
                run.violation('%s_sim_raises' % entry.prop.lower(), dict(block=entry.name),
                              dict(block=entry.name, cfg=cfg, inputs=vals, **extra), observed=repr(e)[:200],
                              what='%s%r raises in propagate: %r' % (entry.name, cfg, e))
                break
            exp = entry.ref(cfg, vals)
            got = [o.get() for o in outs]
            run.ev()
            reduced = False
            ok = True
            for k, e_ in enumerate(exp):
                if e_ is None:
                    continue
                m = mask(e_, ow[k])
                if m != e_:
                    reduced = True
                if m != got[k]:
                    ok = False
                    run.violation('%s_value' % entry.prop.lower(), dict(block=entry.name, out=k),
                                  dict(block=entry.name, cfg=cfg, inputs=vals, out=k, **extra), expected=m, observed=got[k],
                                  what='%s%r%s inputs=%r out[%d] expected %d got %d' % (entry.name, cfg, ' [%s]' % hostile if hostile else '', vals, k, m, got[k]))
                    break
            if not ok:
                nbad += 1
                if nbad >= 3:
                    break
            if reduced or any(vals) or not vals:
                run.nt(hash((entry.name, cfg, tuple(vals), hostile)))
            if klass:
                kc['evals'] += 1
                kc['reduced'] += reduced
                if ctl:
                    kc['ctl_ge2'] += any(vals[k] >= 2 for k in ctl)
                    kc['ctl_odd_ge3'] += any(vals[k] >= 3 and vals[k] & 1 for k in ctl)
            if first:
                first = False
            if run.evaluations % 9973 == 0:
                run.sample(dict(block=entry.name, cfg=cfg, inputs=vals, expected=[None if e is None else mask(e, w) for e, w in zip(exp, ow)], observed=got))
        for c in klass:
            by = run.extra.setdefault('class_' + c, {})
            by['configs'] = by.get('configs', 0) + 1
            by['judged_evaluations'] = by.get('judged_evaluations', 0) + kc['evals']
            by['configs:' + entry.name] = by.get('configs:' + entry.name, 0) + 1
            if c == 'wide_control':
                by['judged_with_control_value_ge_2'] = by.get('judged_with_control_value_ge_2', 0) + kc['ctl_ge2']
                by['judged_with_odd_control_value_ge_3'] = by.get('judged_with_odd_control_value_ge_3', 0) + kc['ctl_odd_ge3']
                by['not_judged_control_value_ge_2_undocumented'] = by.get('not_judged_control_value_ge_2_undocumented', 0) + kc['ctl_outside_domain']
            else:
                by['judged_with_result_reduced_mod_2**width'] = by.get('judged_with_result_reduced_mod_2**width', 0) + kc['reduced']
                if len(outs) == 1 and ins and ow[0] < max(widths):
                    by['configs_result_narrower_than_operand'] = by.get('configs_result_narrower_than_operand', 0) + 1
        if run.too_many:
            break
    return nconf


# the deciding observation of every catalogue configuration class: a run in which it is zero decided nothing about the class
DECIDING = {'wide_control': 'judged_with_odd_control_value_ge_3', 'param_boundary': 'judged_with_result_reduced_mod_2**width'}


HISTORY_SHAPES = ('A_B_A', 'A_outside_domain_A')


def history_entry(run, entry, cfgs, rnd, tier, deadline, stats):
    """History sweeps on ONE long-lived instance per configuration: "a combinational block answers the same whatever was applied before".
    A,B,A returns over a small pool of in-domain vectors, and -- for blocks with a documented domain -- A, an input OUTSIDE the domain that IS
    applied and propagated (not judged; an exception there is only counted), then A again (judged by the ordinary reference)."""
    import py4hw
    npool = 6 if tier == 'quick' else 14
    nout = 4 if tier == 'quick' else 10
    for cfg in cfgs:
        if time.time() > deadline or run.too_many:
            break
        hw = py4hw.HWSystem()
        try:
            with muted():
                ins, outs = entry.build(hw, cfg, hw.wire)
                sim = hw.getSimulator()
        except Exception:
            continue            # reported by the plain sweep
        if not ins:
            continue
        widths = [w.getWidth() for w in ins]
        ow = [o.getWidth() for o in outs]
        cases, _ = catalog.input_cases(widths, rnd, 10, 300, 60)
        cases = list(cases)
        inside = [v for v in cases if entry.domain is None or entry.domain(cfg, v)]
        outside = [v for v in cases if entry.domain is not None and not entry.domain(cfg, v)]
        if not inside:
            continue
        pool = list(dict.fromkeys([inside[0], inside[-1]] + [rnd.choice(inside) for _ in range(npool)]))[:npool]
        opool = list(dict.fromkeys([rnd.choice(outside) for _ in range(nout)])) if outside else []
        seqs = [('A_B_A', (A, B, A)) for A in pool for B in pool if A != B]
        seqs += [('A_outside_domain_A', (A, O, A)) for A in pool for O in opool]
        stats['history_configs'] += 1
        if opool:
            stats['history_configs_with_outside_domain_inputs:' + entry.name] += 1
        hist = []
        prev_outside = False
        seen = set()
        nbad = 0
        for shape, seq in seqs:
            for vals in seq:
                hist.append(vals)
                for w, v in zip(ins, vals):
                    w.put(v)
                indom = entry.domain is None or entry.domain(cfg, vals)
                try:
                    with muted():
                        sim.propagateAll()
                except Exception as e:
                    if not indom:
                        stats['outside_domain_step_raises_not_judged'] += 1
                        prev_outside = True
                        continue
                    run.violation('%s_sim_raises' % entry.prop.lower(), dict(block=entry.name, workload='history'),
                                  dict(block=entry.name, cfg=cfg, inputs=vals, history=hist[-8:-1]), observed=repr(e)[:200],
                                  what='%s%r raises in propagate (history workload): %r' % (entry.name, cfg, e))
                    nbad = 99
                    break
                if not indom:
                    stats['outside_domain_steps_applied_and_propagated_not_judged'] += 1
                    prev_outside = True
                    continue
                exp = entry.ref(cfg, vals)
                got = [o.get() for o in outs]
                run.ev()
                stats['history_steps_judged'] += 1
                stats['history_steps_judged:' + shape] += 1
                if vals in seen:
                    stats['judged_steps_returning_to_an_earlier_vector'] += 1
                if prev_outside:
                    stats['judged_right_after_an_outside_domain_step'] += 1
                    stats['judged_right_after_an_outside_domain_step:' + entry.name] += 1
                seen.add(vals)
                if any(vals):
                    run.nt(hash((entry.name, cfg, 'history', len(hist), tuple(vals))))
                for k, e_ in enumerate(exp):
                    if e_ is None:
                        continue
                    m = mask(e_, ow[k])
                    if m != got[k]:
                        nbad += 1
                        run.violation('%s_value' % entry.prop.lower(),
                                      dict(block=entry.name, out=k, workload='history', previous_step='outside_domain' if prev_outside else 'in_domain'),
                                      dict(block=entry.name, cfg=cfg, inputs=vals, out=k, history=hist[-8:-1]), expected=m, observed=got[k],
                                      what='%s%r inputs=%r out[%d] expected %d got %d -- on a long-lived instance, previous vectors %r%s' % (
                                          entry.name, cfg, vals, k, m, got[k], hist[-4:-1], ' (the last one outside the documented domain, applied but not judged)' if prev_outside else ''))
                        break
                prev_outside = False
            if nbad >= 3:
                break


def history_floors(run, prop, tier):
    if run.too_many or run.violations:
        return
    h = run.extra.get('history', {})
    for k in ('history_steps_judged:A_B_A', 'judged_steps_returning_to_an_earlier_vector'):
        if not h.get(k):
            run.inconclusive.append('history class: %s is zero' % k)
    withdom = [e.name for e in catalog.by_prop(prop) if e.domain is not None and e.configs(tier)]
    missing = [n for n in withdom if not h.get('judged_right_after_an_outside_domain_step:' + n)]
    if withdom and not h.get('judged_right_after_an_outside_domain_step'):
        run.inconclusive.append('history class: no step was judged right after an outside-domain input')
    elif missing:
        run.inconclusive.append('history class: blocks with a documented domain never judged right after an outside-domain input: %s' % missing)


def post_merge(run, prop, tier):
    history_floors(run, prop, tier)
    for c, d in catalog.CLASSES.items():
        names = [n for n in d if catalog.by_name(n).prop == prop and any(x in catalog.by_name(n).configs(tier) for x in d[n])]
        if not names:
            continue
        by = run.extra.get('class_' + c, {})
        missing = [n for n in names if not by.get('configs:' + n)]
        if missing:
            run.inconclusive.append('configuration class %s: blocks never swept: %s' % (c, missing))
        if not by.get(DECIDING[c]):
            run.inconclusive.append('configuration class %s: %s is zero' % (c, DECIDING[c]))


def run_prop(run, prop, tier, seed, shard, seconds):
    entries = catalog.by_prop(prop)
    deadline = time.time() + seconds
    per_block = {}
    hstats = collections.defaultdict(int)
    for entry in entries:
        cfgs = entry.configs(tier)
        cfgs = shard_slice(cfgs, shard)
        rnd = rng(seed, prop, entry.name, shard)
        e0 = run.evaluations
        n = sweep_entry(run, entry, cfgs, rnd, tier, deadline)
        # the same configurations built by a caller that reuses the list objects it passed
        for k, mode in enumerate(('clear', 'reverse', 'rotate', 'fill')):
            sweep_entry(run, entry, cfgs[k::4] if tier == 'quick' else cfgs, rnd, tier, deadline, hostile=mode)
        # ... and with one wire connected to several input ports of the block
        for mode in ('alias_all', 'alias_pairs', 'late_drivers'):
            sweep_entry(run, entry, cfgs, rnd, tier, deadline, hostile=mode)
        history_entry(run, entry, cfgs, rng(seed, prop, entry.name, 'history', shard), tier, deadline, hstats)
        per_block[entry.name] = dict(configs=n, evaluations=run.evaluations - e0)
        if n:
            run.sample(dict(block=entry.name, first_cfg=cfgs[0], configs=n))
        if run.too_many:
            break
    run.extra['per_block'] = per_block
    run.extra['history'] = dict(hstats)
    run.extra['blocks'] = len(entries)
    if shard is None or shard[0] == 0:
        zero = [k for k, v in per_block.items() if v['evaluations'] == 0]
        # every catalogue block must have been evaluated at least once, else the run decided nothing for it
        if shard is None and zero:
            run.inconclusive.append('blocks never evaluated: %s' % zero)
    if run.counters.get('configs_skipped_watchdog'):
        run.inconclusive.append('watchdog: %d configurations skipped' % run.counters['configs_skipped_watchdog'])
    if shard is None:
        post_merge(run, prop, tier)
