"""C14 -- fixed-point blocks agree with exact scaled-integer arithmetic (DESIGN.md section C14).

For a configuration (operand formats af, bf and result format rf, each (1, int bits, fraction bits)) ONE HWSystem is
built with every block that accepts it: same-format configurations get FixedPointAdd, FixedPointSub, FixedPointMult,
FixedPointSign and FixedPointComparator on the same two input wires; mixed-format configurations (which only the
multiplier accepts) get FixedPointMult.  A step pokes the two undriven operand wires, runs Simulator.propagateAll()
and reads every output with Wire.get().  The oracle is plain integer arithmetic on the signed values of the raw
encodings (value = signed / 2**fw): add/sub mod 2**w, product = floor(sa*sb / 2**low) mod 2**rw with
low = fa + fb - fr, sign = top bit, comparator judged whenever a - b is representable in the format.
The FixedPoint *helper* (py4hw/helper.py) is judged by C12 (section fixedpoint_helper), not here.
"""
import itertools
import os
import time

from .common import muted, rng, sgn, stable_hash

LEVEL = 'exploration'
RULE = ('configurations: every signed format (1,iw,fw) with iw+fw <= 8 in same-format mode (all five blocks), operand pairs exhaustive '
        'when the width is <= 7 (quick) / <= 9, i.e. all of them (thorough), else boundary x boundary (0, +-1 lsb, +-one, most negative, most positive, '
        'alternating bits) + random; wide formats (1,15,16) (1,7,24) (1,31,32) (1,0,15) (1,0,31) (1,16,16) (1,3,60) on boundary x boundary + '
        'random; mixed-format multiplier configurations (af, bf, rf) with low = fa+fb-fr >= 0: all triples of formats up to 3 bits '
        'exhaustively, sampled triples of larger formats; output-width configurations: the comparator\'s gt/eq/lt wires and the sign '
        'wire 1..4 bits wide (1..9 in thorough), uniform and mixed, for every format up to 5 bits (7 in thorough) exhaustively and some wide '
        'formats -- reference = the 0/1 flag masked to the wire; composition configurations: the operand wires are two top-level wires (flat), '
        'a parent wire and a wire created inside the user block with the SAME local name (explicit name, or both numbered i0 by LogicHelper) or '
        'a different one, or one wire on both ports (flat and nested), for every format up to 5 bits (7 in thorough), three wide formats and '
        'mixed-format multiplier triples; operand-source configurations: operand a, operand b or both driven directly by Constant blocks (every '
        'single-bit value incl. the most negative encoding, 0, -1, largest positive, one +- 1 lsb, random) for every format up to 5 bits (7 in '
        'thorough), (1,3,4), (1,7,8), (1,15,16) and four mixed multiplier triples, swept against the other operand; size class: formats of total width 257, 300, 512 and 1000 (same-format, all five blocks, and three '
        'mixed multiplier triples), every wire width computed independently, boundary x boundary + random operands; history class: ONE long-lived instance per '
        'configuration (same-format small/wide/huge formats with all five blocks, mixed multiplier triples) driven with operand sequences that return to earlier pairs -- A,A; A,(0,y),A; A,(x,0),A; '
        'A,(0,0),A; A,swap(A),A; A,pair sharing one operand,A; A,special value,A; A,B,A,B; zero,A,zero,A for every non-zero pair A of a small pool (0, +-1 lsb, most negative, +-one, 3 random) and a walk on the pool '
        '-- judged by the same exact oracle (a stateless block answers the same whatever was applied before); optional-output class: the comparator built with every non-empty subset of {gt, eq, lt} connected and the others None '
        '(subsets the constructor refuses are counted), for every format up to 5 bits (7 in thorough) and five wide formats, flag wires 1 and 3 bits, each connected output judged by the same oracle.  evaluations = block outputs judged.  Non-trivial: both operands non-zero; '
        'distinct by content (configuration, x, y); in the thorough tier only the cases whose content hash is 0 mod 16 are registered, so '
        'distinct_nontrivial is a lower bound there (keeps the merged set small)')
SHARDS = {'quick': 1, 'thorough': 16}
TIMEOUT = {'quick': 600, 'thorough': 3000}
MIN_NONTRIVIAL = {'quick': 20000, 'thorough': 300000}


def V(key, fields, expected, observed, what):
    return dict(key=key, fields=fields, expected=expected, observed=observed, what=what)


def config_class(af, bf, rf):
    if af == bf == rf:
        return 'same_format'
    low = af[2] + bf[2] - rf[2]
    if low < 0:
        return 'mixed_low<0'
    if low + sum(rf) > sum(af) + sum(bf):
        return 'mixed_window_exceeds_double_width'
    return 'mixed_window_fits'


CONST_SCOPES = ('const_a', 'const_b', 'const_both')
SCOPES = ('flat', 'nested_equal_names', 'nested_helper_names', 'nested_distinct_names', 'same_wire', 'nested_same_wire')
_WRAP = None


def wrap_class():
    """A user block that receives operand a from its parent, derives operand b *inside itself* (a Buf of its second input,
    so the value is still under the harness's control) and instantiates the fixed-point blocks on (a, inner b).  The
    inner wire can be given the same local name as the parent's wire, or both can be numbered by LogicHelper ('i0' in
    the parent and 'i0' in the child) -- wire names are only unique within one parent."""
    global _WRAP
    if _WRAP is None:
        import py4hw

        class Wrap(py4hw.Logic):
            def __init__(self, parent, name, a, bsrc, af, bf, rf, outs, scope, inner_name):
                super().__init__(parent, name)
                a = self.addIn('pa', a)
                bsrc = self.addIn('pb', bsrc)
                for k, w in outs.items():
                    for j, ww in enumerate(w if isinstance(w, list) else [w]):
                        self.addOut('o_%s%d' % (k, j), ww)
                if scope == 'nested_helper_names':
                    b = py4hw.LogicHelper(self).hw_buf(bsrc)
                elif scope == 'nested_same_wire':
                    b = a
                else:
                    b = self.wire(inner_name, bsrc.getWidth())
                    py4hw.Buf(self, 'buf_b', bsrc, b)
                self.inner_b = b
                instantiate(py4hw, self, a, b, af, bf, rf, outs)
        _WRAP = Wrap
    return _WRAP


def instantiate(py4hw, scope_obj, a, b, af, bf, rf, outs):
    py4hw.FixedPointMult(scope_obj, 'mul', a, af, b, bf, outs['mult'], rf)
    if 'add' in outs:
        py4hw.FixedPointAdd(scope_obj, 'add', a, af, b, bf, outs['add'], rf)
        py4hw.FixedPointSub(scope_obj, 'sub', a, af, b, bf, outs['sub'], rf)
        py4hw.FixedPointSign(scope_obj, 'sgn', a, af, outs['sign'])
        py4hw.FixedPointComparator(scope_obj, 'cmp', a, af, b, bf, *outs['cmp'])


class Rig:
    """All blocks that accept the configuration, on shared input wires."""

    def __init__(self, af, bf, rf, flags=(1, 1, 1, 1)):
        # flags[:4] = widths of the (gt, eq, lt, sign) output wires: a flag wire wider than one bit is legal (the value is
        # zero-extended into it), so the reference for it is the same 0/1 masked to the wire.
        # flags[4] (optional) = composition scope, one of SCOPES: where the two operand wires live and what they are called.
        import py4hw
        self.flags = tuple(flags)
        self.scope = self.flags[4] if len(self.flags) > 4 else 'flat'
        self.af, self.bf, self.rf = tuple(af), tuple(bf), tuple(rf)
        self.same = self.af == self.bf == self.rf
        hw = py4hw.HWSystem()
        wa, wb, wr = sum(af), sum(bf), sum(rf)
        outs = dict(mult=hw.wire('rm', wr))
        if self.same:
            outs.update(add=hw.wire('ra', wr), sub=hw.wire('rs', wr), sign=hw.wire('sg', self.flags[3]),
                        cmp=[hw.wire(n, w) for n, w in zip(('gt', 'eq', 'lt'), self.flags[:3])])
        self.outs = outs
        self.operand_names = None
        with muted():
            if self.scope == 'flat':
                self.a, self.b = hw.wire('a', wa), hw.wire('b', wb)
                instantiate(py4hw, hw, self.a, self.b, self.af, self.bf, self.rf, outs)
                self.operand_names = ('a', 'b')
            elif self.scope in CONST_SCOPES:
                # operand-source class: one or both operand wires are driven DIRECTLY by py4hw.Constant blocks (flags[5] = (ka, kb));
                # the other one stays a poked wire
                ka, kb = self.flags[5]
                self.a, self.b = hw.wire('a', wa), hw.wire('b', wb)
                self.const = (ka if self.scope != 'const_b' else None, kb if self.scope != 'const_a' else None)
                if self.const[0] is not None:
                    py4hw.Constant(hw, 'ka', self.const[0], self.a)
                if self.const[1] is not None:
                    py4hw.Constant(hw, 'kb', self.const[1], self.b)
                instantiate(py4hw, hw, self.a, self.b, self.af, self.bf, self.rf, outs)
                self.operand_names = tuple('Constant(%#x)' % c if c is not None else 'poked wire' for c in self.const)
            elif self.scope == 'same_wire':
                assert wa == wb
                self.a = self.b = hw.wire('a', wa)
                instantiate(py4hw, hw, self.a, self.a, self.af, self.bf, self.rf, outs)
                self.operand_names = ('a', 'a')
            else:
                if self.scope == 'nested_same_wire':
                    assert wa == wb
                # the poked wires are the sources; the operand wires proper are derived from them
                self.a_src, self.b = hw.wire('src_a', wa), hw.wire('src_b', wb)
                if self.scope == 'nested_helper_names':
                    a_op = py4hw.LogicHelper(hw).hw_buf(self.a_src)            # 'i0' in the parent
                    inner = None
                else:
                    a_op = hw.wire('x', wa)
                    py4hw.Buf(hw, 'buf_a', self.a_src, a_op)
                    inner = 'x' if self.scope == 'nested_equal_names' else 'inner_b'
                self.a = self.a_src
                w = wrap_class()(hw, 'user', a_op, self.b, self.af, self.bf, self.rf, outs, self.scope, inner)
                self.operand_names = (a_op.name, w.inner_b.name)
            self.sim = hw.getSimulator()

    def step(self, x, y):
        const = getattr(self, 'const', (None, None))
        if const[0] is None:
            self.a.put(x)
        if self.b is not self.a and const[1] is None:
            self.b.put(y)
        with muted():
            self.sim.propagateAll()
        o = self.outs
        out = dict(mult=o['mult'].get())
        if self.same:
            out.update(add=o['add'].get(), sub=o['sub'].get(), sign=o['sign'].get(), cmp=tuple(w.get() for w in o['cmp']))
        return out


def judge(af, bf, rf, x, y, out, stats, flags=(1, 1, 1, 1)):
    """Returns (evaluations, violations) for one observed step."""
    fl = 'all_flags_1_bit' if tuple(flags[:4]) == (1, 1, 1, 1) else 'flag_wires_wider_than_1_bit'
    scope = flags[4] if len(flags) > 4 else 'flat'
    vs = []
    n = 0
    wa, wb, wr = sum(af), sum(bf), sum(rf)
    sx, sy = sgn(x, wa), sgn(y, wb)
    cc = config_class(af, bf, rf)
    mr = (1 << wr) - 1
    tag = 'af=%r bf=%r rf=%r%s a=%#x (%d) b=%#x (%d)' % (tuple(af), tuple(bf), tuple(rf), '' if scope == 'flat' else ' scope=' + scope, x, sx, y, sy)
    # ---- multiplier: exact product of the signed values, bit-truncated (floor) to the result format
    low = af[2] + bf[2] - rf[2]
    p = sx * sy
    exp = ((p >> low) if low >= 0 else (p << -low)) & mr          # >> on Python ints is floor division by 2**low
    n += 1
    stats['mult'] += 1
    if out['mult'] != exp:
        got = out['mult']
        dw = wa + wb
        lo = max(low, 0)
        alts = (('first_operand_squared', (((sx * sx) >> lo) & mr) if (scope != 'flat' and sx != sy) else None),
                ('second_operand_squared', (((sy * sy) >> lo) & mr) if (scope != 'flat' and sx != sy) else None),
                ('bits_above_double_width_read_as_zero', ((p & ((1 << dw) - 1)) >> lo) & mr),
                ('unsigned_product', ((x * y) >> lo) & mr),
                ('rounded_toward_zero', (abs(p) >> lo) * (1 if p >= 0 else -1) & mr),
                ('window_one_bit_high', (p >> (lo + 1)) & mr),
                ('window_one_bit_low', ((p >> (lo - 1)) & mr) if lo >= 1 else None),
                ('window_at_fr_only', (p >> rf[2]) & mr),
                ('no_rescale', p & mr))
        rel = next((k for k, a in alts if a == got), 'other') if low >= 0 else 'other'
        vs.append(V('fxp_mult', dict(block='FixedPointMult', config_class=cc, scope=scope, relation=rel, product='negative' if p < 0 else 'non_negative'),
                    exp, got, 'FixedPointMult %s: exact product %d * 2**-%d, expected word %#x observed %#x [%s]' % (tag, p, af[2] + bf[2], exp, got, rel)))
    if cc != 'same_format':
        return n, vs
    w = wa
    m = (1 << w) - 1
    for name, blk, e in (('add', 'FixedPointAdd', (sx + sy) & m), ('sub', 'FixedPointSub', (sx - sy) & m)):
        n += 1
        stats[name] += 1
        if out[name] != e:
            d = (out[name] - e) & m
            other = {'add': (sx - sy) & m, 'sub': (sy - sx) & m}[name]
            rel = 'off_by_one' if d in (1, m) else ('operands_or_operation_swapped' if out[name] == other and other != e else 'other')
            vs.append(V('fxp_' + name, dict(block=blk, config_class=cc, scope=scope, relation=rel), e, out[name],
                        '%s %s: expected %#x observed %#x' % (blk, tag, e, out[name])))
    n += 1
    stats['sign'] += 1
    if out['sign'] != (x >> (w - 1)) & 1:
        vs.append(V('fxp_sign', dict(block='FixedPointSign', config_class=cc, scope=scope, flag_wires=fl,
                                     relation='inverted' if out['sign'] in (0, 1) else ('upper_bits_of_flag_wire_set' if out['sign'] & 1 == (x >> (w - 1)) & 1 else 'other')),
                    (x >> (w - 1)) & 1, out['sign'], 'FixedPointSign %s: expected %d observed %d' % (tag, (x >> (w - 1)) & 1, out['sign'])))
    d = sx - sy
    if -(1 << (w - 1)) <= d < (1 << (w - 1)):
        n += 1
        stats['cmp'] += 1
        e = (int(sx > sy), int(sx == sy), int(sx < sy))
        if tuple(out['cmp']) != e:
            g = tuple(out['cmp'])
            if any(v > 1 for v in g):
                bad = [nm for nm, v, ev in zip(('gt', 'eq', 'lt'), g, e) if v != ev]
                rel = 'upper_bits_of_flag_wire_set:' + '+'.join(bad)
            else:
                rel = 'gt_lt_swapped' if g == (e[2], e[1], e[0]) else ('not_one_hot' if sum(g) != 1 else 'other')
            vs.append(V('fxp_cmp', dict(block='FixedPointComparator', config_class=cc, scope=scope, relation=rel, flag_wires=fl,
                                        operands='equal' if d == 0 else ('same_sign' if (sx < 0) == (sy < 0) else 'opposite_sign')),
                        dict(zip(('gt', 'eq', 'lt'), e)), dict(zip(('gt', 'eq', 'lt'), g)),
                        'FixedPointComparator %s (flag wire widths gt,eq,lt=%r): expected gt,eq,lt=%r observed %r' % (tag, tuple(flags[:3]), e, g)))
    else:
        stats['cmp_difference_not_representable'] += 1
    return n, vs


# --------------------------------------------------------------------------- workload

def bset(w, fw, rnd, nrandom):
    m = (1 << w) - 1
    s = {0, 1, 2, m, m - 1, 1 << (w - 1), (1 << (w - 1)) - 1, ((1 << (w - 1)) + 1) & m, m // 3, m - m // 3}     # m//3 = 0101..01, m - m//3 = 1010..10 at any width
    if fw < w:
        one = 1 << fw
        s |= {one & m, (one - 1) & m, (one + 1) & m, (-one) & m, (-one - 1) & m, (-one + 1) & m, (one >> 1) & m, (-(one >> 1)) & m, (3 * one >> 1) & m}
    if w >= 4:
        s |= {1 << (w // 2), (1 << (w // 2)) - 1, (-(1 << (w // 2))) & m}
    s |= {rnd.getrandbits(w) for _ in range(nrandom)}
    return sorted(s)


def small_formats(maxsum):
    return [(1, iw, fw) for iw in range(0, maxsum + 1) for fw in range(0, maxsum + 1 - iw)]


HUGE = [(1, 128, 128), (1, 0, 256), (1, 149, 150), (1, 255, 256), (1, 300, 699)]
WIDE = [(1, 15, 16), (1, 7, 24), (1, 31, 32), (1, 0, 15), (1, 0, 31), (1, 16, 16), (1, 3, 60), (1, 8, 8), (1, 11, 0)]


def configs(tier, seed):
    """List of (af, bf, rf, mode) -- deterministic given (tier, seed); sliced over shards by the caller."""
    rnd = rng(seed, 'C14', 'configs')
    out = []
    exh = 7 if tier == 'quick' else 9
    for f in small_formats(8):
        out.append((f, f, f, 'exhaustive' if sum(f) <= exh else 'boundary'))
    for f in WIDE:
        out.append((f, f, f, 'boundary'))
    # mixed-format multiplier configurations
    tiny = small_formats(2)
    for af, bf, rf in itertools.product(tiny, repeat=3):
        if (af, bf, rf) != (af, af, af):
            out.append((af, bf, rf, 'exhaustive'))
    pool = small_formats(5) + WIDE
    for _ in range(150 if tier == 'quick' else 4000):
        af, bf, rf = rnd.choice(pool), rnd.choice(pool), rnd.choice(pool)
        if af == bf == rf:
            continue
        out.append((af, bf, rf, 'exhaustive' if sum(af) + sum(bf) <= (10 if tier == 'quick' else 12) else 'boundary'))
    # realistic accumulate-into-a-wider-format and narrow-the-result cases
    for af, bf, rf in [((1, 0, 15), (1, 0, 15), (1, 15, 16)), ((1, 0, 15), (1, 0, 15), (1, 0, 31)), ((1, 0, 15), (1, 0, 15), (1, 1, 30)),
                       ((1, 7, 8), (1, 7, 8), (1, 15, 16)), ((1, 7, 8), (1, 7, 8), (1, 15, 0)), ((1, 15, 16), (1, 15, 16), (1, 31, 32)),
                       ((1, 15, 16), (1, 15, 16), (1, 7, 8)), ((1, 3, 4), (1, 7, 8), (1, 11, 12)), ((1, 3, 4), (1, 7, 8), (1, 3, 4))]:
        out.append((af, bf, rf, 'boundary'))
    # size class: total widths beyond CPython's small-int cache (257, 300, 512, 1000).  The rig computes the width of every wire
    # independently (sum() of that wire's own format), as two separately written declarations in a user design would; a correct
    # design that is refused at construction is reported (fxp_build_raises)
    for f in HUGE:
        out.append((f, f, f, 'boundary'))
    for af, bf, rf in [((1, 128, 128), (1, 0, 256), (1, 128, 128)), ((1, 149, 150), (1, 149, 150), (1, 299, 300)), ((1, 255, 256), (1, 127, 128), (1, 255, 256))]:
        out.append((af, bf, rf, 'boundary'))
    out = [c + ((1, 1, 1, 1),) for c in out]
    # output-width configurations: the flag wires (gt, eq, lt of the comparator, s of FixedPointSign) are the only outputs whose
    # width the constructors leave free (Add/Sub/Mult assert r.getWidth() == sum(rf)); a wider flag wire must read 0/1
    variants = [(2, 2, 2, 2), (3, 3, 3, 3), (4, 4, 4, 4), (4, 1, 1, 1), (1, 4, 1, 1), (1, 1, 4, 1), (1, 1, 1, 4), (2, 3, 4, 2)]
    if tier == 'thorough':
        variants += [(8, 8, 8, 8), (1, 2, 1, 3), (5, 1, 7, 1), (rnd.randint(1, 9), rnd.randint(1, 9), rnd.randint(1, 9), rnd.randint(1, 9))]
    for f in small_formats(4 if tier == 'quick' else 6):
        for fl in variants:
            out.append((f, f, f, 'exhaustive', fl))
    for f in WIDE[:3] + [(1, 3, 4)]:
        for fl in ((4, 4, 4, 4), (2, 3, 4, 2)):
            out.append((f, f, f, 'boundary', fl))
    # composition configurations: where the two operand wires live and what they are called (SCOPES).  A block must compute the
    # same function of the VALUES on its ports whether the wires are two top-level wires, a parent's wire and a wire created
    # inside the user block with the same local name (explicitly, or both numbered 'i0' by LogicHelper), or one wire on both ports.
    for f in small_formats(4 if tier == 'quick' else 6) + [(1, 7, 8), (1, 15, 16), (1, 31, 32), HUGE[0]]:
        for sc in SCOPES[1:]:
            out.append((f, f, f, 'exhaustive' if sum(f) <= (6 if tier == 'quick' else 7) else 'boundary', (1, 1, 1, 1, sc)))
    # operand-source configurations: operands driven by Constant blocks -- every single-bit value (2**k scalings, including the most
    # negative encoding 1 << (w-1)), 0, -1 (all ones), the largest positive value, 1 lsb below/above 'one', random
    def const_values(f):
        w = sum(f)
        m = (1 << w) - 1
        vals = {0, m, (1 << (w - 1)) - 1, (1 << (w - 1)) | 1, rnd.getrandbits(w)} | {1 << k for k in range(w)}
        if f[2] < w:
            vals |= {((1 << f[2]) - 1) & m, ((1 << f[2]) + 1) & m, (-(1 << f[2])) & m}
        return sorted(vals)
    for f in small_formats(4 if tier == 'quick' else 6) + [(1, 3, 4), (1, 7, 8), (1, 15, 16)]:
        for kv in const_values(f):
            for sc in ('const_a', 'const_b'):
                out.append((f, f, f, 'boundary', (1, 1, 1, 1, sc, (kv, kv))))
        for kv in const_values(f)[:: (3 if tier == 'quick' else 1)]:
            out.append((f, f, f, 'boundary', (1, 1, 1, 1, 'const_both', (kv, rnd.choice(const_values(f))))))
    for af, bf, rf in [((1, 3, 4), (1, 7, 8), (1, 11, 12)), ((1, 1, 2), (1, 2, 1), (1, 2, 2)), ((1, 0, 7), (1, 0, 7), (1, 7, 8)), ((1, 2, 2), (1, 2, 2), (1, 4, 4))]:
        for sc, f in (('const_a', af), ('const_b', bf)):
            for kv in const_values(f):
                out.append((af, bf, rf, 'boundary', (1, 1, 1, 1, sc, (kv, kv))))
    n = 0
    for af, bf, rf in [((1, 0, 15), (1, 0, 15), (1, 15, 16)), ((1, 7, 8), (1, 7, 8), (1, 15, 16)), ((1, 3, 4), (1, 7, 8), (1, 11, 12)),
                       ((1, 1, 2), (1, 2, 1), (1, 2, 2)), ((1, 0, 3), (1, 3, 0), (1, 3, 3)), ((1, 2, 2), (1, 2, 2), (1, 4, 4))] + \
            [(rnd.choice(pool), rnd.choice(pool), rnd.choice(pool)) for _ in range(20 if tier == 'quick' else 200)]:
        if af == bf == rf or af[2] + bf[2] - rf[2] < 0:
            continue
        for sc in SCOPES[1:]:
            if sc.endswith('same_wire') and sum(af) != sum(bf):
                continue
            n += 1
            out.append((af, bf, rf, 'exhaustive' if sum(af) + sum(bf) <= 10 else 'boundary', (1, 1, 1, 1, sc)))
    return out


def operand_pairs(af, bf, mode, tier, rnd, scope='flat', consts=None):
    wa, wb = sum(af), sum(bf)
    if scope in CONST_SCOPES:
        ka, kb = consts
        xs = range(1 << wa) if (mode == 'exhaustive' or wa <= 8) else bset(wa, af[2], rnd, 30 if tier == 'quick' else 300)
        ys = range(1 << wb) if (mode == 'exhaustive' or wb <= 8) else bset(wb, bf[2], rnd, 30 if tier == 'quick' else 300)
        if scope == 'const_a':
            return ((ka, y) for y in ys)
        if scope == 'const_b':
            return ((x, kb) for x in xs)
        return iter([(ka, kb)])
    if scope.endswith('same_wire'):
        # one wire on both ports: the second operand IS the first
        xs = range(1 << wa) if mode == 'exhaustive' else bset(wa, af[2], rnd, 40 if tier == 'quick' else 400)
        return ((x, x) for x in xs)
    if mode == 'exhaustive':
        return itertools.product(range(1 << wa), range(1 << wb))
    nb = 6 if tier == 'quick' else 24
    xs, ys = bset(wa, af[2], rnd, nb), bset(wb, bf[2], rnd, nb)
    nr = 400 if tier == 'quick' else 20000
    return itertools.chain(itertools.product(xs, ys), ((rnd.getrandbits(wa), rnd.getrandbits(wb)) for _ in range(nr)),
                           # close operands: comparator / subtraction around equality
                           (((v + d) & ((1 << wa) - 1), v & ((1 << wb) - 1)) for v in xs for d in (1, -1) if wa == wb))


class Stats(dict):
    def __missing__(self, k):
        return 0


# --------------------------------------------------------------------------- history workloads (stateless blocks are history-independent)

HISTORY_SHAPES = ('A_A', 'A_zero_a_A', 'A_zero_b_A', 'A_zero_both_A', 'A_swap_A', 'A_share_a_A', 'A_share_b_A', 'A_special_A', 'A_B_A_B',
                  'zero_A_zero_A', 'pool_walk')


def history_pool(w, fw, rnd):
    """A SMALL pool per operand (so that returns to earlier values are frequent): zero, 1 lsb, -1 lsb (all ones), most negative, one / minus
    one when the format has them, and random values."""
    m = (1 << w) - 1
    special = [0, 1 & m, m, 1 << (w - 1)]
    if fw < w - 1:
        special += [(1 << fw) & m, (-(1 << fw)) & m]
    special = list(dict.fromkeys(special))
    rand = []
    for _ in range(20):
        v = rnd.getrandbits(w)
        if v and v not in special and v not in rand:
            rand.append(v)
        if len(rand) >= 3:
            break
    return special, rand


def history_sequence(af, bf, rnd, nwalk):
    """Yields (shape, x, y): operand sequences for ONE long-lived instance that keep returning to earlier pairs."""
    wa, wb = sum(af), sum(bf)
    sa, ra = history_pool(wa, af[2], rnd)
    sb, rb = history_pool(wb, bf[2], rnd)
    pa, pb = sa + ra, sb + rb
    nza, nzb = [v for v in pa if v], [v for v in pb if v]
    mb, ma = (1 << wb) - 1, (1 << wa) - 1
    for x in nza:
        for y in nzb:
            A = (x, y)
            x2 = rnd.choice([v for v in nza if v != x] or nza)
            y2 = rnd.choice([v for v in nzb if v != y] or nzb)
            B = (x2, y2)
            sp = (rnd.choice(sa), rnd.choice(sb))
            for shape, seq in (('A_A', (A, A)),
                               ('A_zero_a_A', (A, (0, y), A)),
                               ('A_zero_b_A', (A, (x, 0), A)),
                               ('A_zero_both_A', (A, (0, 0), A)),
                               ('A_swap_A', (A, (y & ma, x & mb), A)),
                               ('A_share_a_A', (A, (x, y2), A)),
                               ('A_share_b_A', (A, (x2, y), A)),
                               ('A_special_A', (A, sp, A)),
                               ('A_B_A_B', (A, B, A, B)),
                               ('zero_A_zero_A', ((0, y2), A, (x2, 0), A))):
                for q in seq:
                    yield shape, q[0], q[1]
    # a walk on the small pool: each step changes one operand, both, or none
    x, y = rnd.choice(pa), rnd.choice(pb)
    for _ in range(nwalk):
        r = rnd.random()
        if r < 0.35:
            x = rnd.choice(pa)
        elif r < 0.7:
            y = rnd.choice(pb)
        elif r < 0.9:
            x, y = rnd.choice(pa), rnd.choice(pb)
        yield 'pool_walk', x, y


def history_configs(tier, seed):
    rnd = rng(seed, 'C14', 'history_configs')
    out = [(f, f, f) for f in small_formats(8) if sum(f) >= 2 and (tier != 'quick' or sum(f) in (2, 3, 4, 6, 8, 9) or f[1] == f[2])]
    out += [(f, f, f) for f in WIDE + HUGE[:2]]
    out += [((1, 0, 15), (1, 0, 15), (1, 15, 16)), ((1, 7, 8), (1, 7, 8), (1, 15, 16)), ((1, 3, 4), (1, 7, 8), (1, 11, 12)), ((1, 15, 16), (1, 15, 16), (1, 7, 8)),
            ((1, 1, 2), (1, 2, 1), (1, 2, 2)), ((1, 0, 3), (1, 3, 0), (1, 3, 3)), ((1, 128, 128), (1, 0, 256), (1, 128, 128))]
    pool = small_formats(5) + WIDE
    n = 0
    while n < (10 if tier == 'quick' else 120):
        af, bf, rf = rnd.choice(pool), rnd.choice(pool), rnd.choice(pool)
        if af == bf == rf or af[2] + bf[2] - rf[2] < 0:
            continue
        out.append((af, bf, rf))
        n += 1
    return out


def history_run(run, tier, seed, shard, stats, per_class, deadline):
    """ONE rig per configuration, never rebuilt; every step judged by the same exact oracle as the sweeps.  A block that is a pure function of
    its operands answers the same whatever was applied before; the violation carries the whole operand history since the rig was built."""
    i, nsh = shard if shard else (0, 1)
    shapes = Stats()
    returns = Stats()
    for k, (af, bf, rf) in enumerate(history_configs(tier, seed)):
        if run.too_many:
            break
        if k % nsh != i:
            continue
        if time.time() > deadline:
            run.inconclusive.append('watchdog hit before history configuration %r' % ((af, bf, rf),))
            break
        cc = config_class(af, bf, rf)
        try:
            R = Rig(af, bf, rf)
        except Exception as e:
            run.violation('fxp_build_raises', dict(config_class=cc, relation='raises:' + type(e).__name__), dict(kind='build', af=af, bf=bf, rf=rf, flags=(1, 1, 1, 1)),
                          observed=repr(e)[:200], what='blocks for af=%r bf=%r rf=%r do not build: %r' % (af, bf, rf, e))
            continue
        per_class['history_configs_' + cc] += 1
        rnd = rng(seed, 'C14', 'history', af, bf, rf, shard)
        hist = []
        seen = set()
        prev = None
        e0 = run.evaluations
        for shape, x, y in history_sequence(af, bf, rnd, 150 if tier == 'quick' else 1500):
            hist.append((x, y))
            try:
                out = R.step(x, y)
            except Exception as e:
                run.violation('fxp_sim_raises', dict(config_class=cc, relation='raises:' + type(e).__name__, workload='history'),
                              dict(kind='history', af=af, bf=bf, rf=rf, seq=[[hex(a), hex(b)] for a, b in hist[-HISTORY_KEEP:]]),
                              observed=repr(e)[:200], what='propagateAll raises for af=%r bf=%r rf=%r: %r' % (af, bf, rf, e))
                break
            n, viols = judge(af, bf, rf, x, y, out, stats)
            run.ev(n)
            shapes[shape] += 1
            returned = (x, y) in seen
            if returned:
                returns['step_returns_to_an_earlier_pair'] += 1
                if x and y:
                    returns['step_returns_to_an_earlier_nonzero_pair'] += 1
                    if prev is not None and not (prev[0] and prev[1]):
                        returns['nonzero_pair_repeated_right_after_a_zero_operand'] += 1
            if prev == (x, y):
                returns['step_repeats_the_previous_pair'] += 1
            elif prev is not None and (prev[0] == x or prev[1] == y):
                returns['step_shares_one_operand_with_the_previous_pair'] += 1
            seen.add((x, y))
            prev = (x, y)
            if x and y and len(hist) >= 2:
                run.nt(hash(('history', af, bf, rf, len(hist), x >> 60, x & M60, y >> 60, y & M60)))
            if viols:
                for v in viols:
                    v['fields'] = dict(v['fields'], workload='history', shape=shape,
                                       pair_applied_before='yes' if returned else 'no')
                    v['what'] += ' -- step %d of a history workload on one instance (%s); previous pairs: %s' % (
                        len(hist) - 1, shape, ' '.join('(%#x,%#x)' % q for q in hist[-4:-1]))
                report(run, dict(kind='history', af=af, bf=bf, rf=rf, seq=[[hex(a), hex(b)] for a, b in hist[-HISTORY_KEEP:]]), viols)
                if run.too_many:
                    break
        per_class['history_evaluations_' + cc] += run.evaluations - e0
    run.extra['history_steps_per_shape'] = dict(shapes)
    run.extra['history_step_classes'] = dict(returns)


# --------------------------------------------------------------------------- optional-output workloads

OPTIONAL_FLAGS = ('gt', 'eq', 'lt')


def optional_output_run(run, tier, seed, shard, stats, per_class, deadline):
    """Every fixed-point block whose constructor lets outputs be left unconnected (None) -- on this tree the comparator's gt / eq / lt -- is built in
    EVERY non-empty subset of its optional outputs; a subset that the constructor refuses is counted (a refusal is not a wrong value), one that builds
    is swept (exhaustive small formats, boundary x boundary + random + close operands for wide ones, plus an A,B,A history) and every CONNECTED output is judged by the same exact oracle."""
    import py4hw
    i, nsh = shard if shard else (0, 1)
    subsets = [tuple(n for n, b in zip(OPTIONAL_FLAGS, bits) if b) for bits in itertools.product((1, 0), repeat=3) if any(bits)]
    fmts = [f for f in small_formats(4 if tier == 'quick' else 6) if sum(f) >= 2] + [(1, 3, 4), (1, 7, 8), (1, 15, 16), (1, 31, 32), HUGE[0]]
    built = Stats()
    refused = Stats()
    judged = Stats()
    for k, (f, sub) in enumerate(itertools.product(fmts, subsets)):
        if run.too_many:
            break
        if k % nsh != i:
            continue
        if time.time() > deadline:
            run.inconclusive.append('watchdog hit before optional-output configuration %r %r' % (f, sub))
            break
        form = '+'.join(sub)
        w = sum(f)
        for fw in ((1, 3) if sum(f) <= 3 or f == (1, 7, 8) else (1,)):
            hw = py4hw.HWSystem()
            a, b = hw.wire('a', w), hw.wire('b', w)
            outs = {n: hw.wire(n, fw) for n in sub}
            try:
                with muted():
                    py4hw.FixedPointComparator(hw, 'cmp', a, f, b, f, *[outs.get(n) for n in OPTIONAL_FLAGS])
                    sim = hw.getSimulator()
            except Exception as e:
                refused['connected=%s:%s' % (form, type(e).__name__)] += 1
                continue
            built['connected=' + form] += 1
            rnd = rng(seed, 'C14', 'optional', f, sub, fw, shard)
            mode = 'exhaustive' if w <= 5 else 'boundary'
            pairs = list(operand_pairs(f, f, mode, 'quick', rnd))
            if mode == 'boundary':
                pairs = pairs[:: 3] + [(v, v) for v in bset(w, f[2], rnd, 4)]
            pairs += [q for A in pairs[:: max(1, len(pairs) // 12)] for q in (A, (A[1], A[0]), A, (A[0], A[0]), A)]       # returns on the same instance
            for x, y in pairs:
                sx, sy = sgn(x, w), sgn(y, w)
                if not -(1 << (w - 1)) <= sx - sy < (1 << (w - 1)):
                    stats['cmp_difference_not_representable'] += 1
                    continue
                a.put(x)
                b.put(y)
                try:
                    with muted():
                        sim.propagateAll()
                except Exception as e:
                    run.violation('fxp_sim_raises', dict(config_class='same_format', relation='raises:' + type(e).__name__, workload='optional_outputs', connected=form),
                                  dict(kind='optional', f=f, connected=list(sub), flag_width=fw, x=hex(x), y=hex(y)), observed=repr(e)[:200],
                                  what='propagateAll raises for FixedPointComparator %r with only %s connected: %r' % (f, form, e))
                    break
                e3 = dict(gt=int(sx > sy), eq=int(sx == sy), lt=int(sx < sy))
                exp = {n: e3[n] for n in sub}
                got = {n: outs[n].get() for n in sub}
                run.ev()
                stats['cmp'] += 1
                judged['connected=' + form] += 1
                judged['operands_equal' if sx == sy else 'operands_differ'] += 1
                if x and y:
                    run.nt(hash(('optional', f, sub, fw, x >> 60, x & M60, y >> 60, y & M60)))
                if got != exp:
                    bad = [n for n in sub if got[n] != exp[n]]
                    report(run, dict(kind='optional', f=f, connected=list(sub), flag_width=fw, x=hex(x), y=hex(y)),
                           [V('fxp_cmp_optional_outputs', dict(block='FixedPointComparator', config_class='same_format', connected=form, wrong='+'.join(bad),
                                                               operands='equal' if sx == sy else ('same_sign' if (sx < 0) == (sy < 0) else 'opposite_sign'),
                                                               flag_wires='all_flags_1_bit' if fw == 1 else 'flag_wires_wider_than_1_bit'),
                              exp, got, 'FixedPointComparator f=%r built with only %s connected (others None), a=%#x (%d) b=%#x (%d): expected %r observed %r' % (
                                  f, form, x, sx, y, sy, exp, got))])
                    if run.too_many:
                        break
    run.extra['optional_output_forms_built'] = dict(built)
    run.extra['optional_output_forms_refused_by_constructor'] = dict(refused)
    run.extra['optional_output_steps_judged'] = dict(judged)


def replay_optional(c):
    import py4hw
    f = tuple(c['f'])
    w = sum(f)
    sub = tuple(c['connected'])
    hw = py4hw.HWSystem()
    a, b = hw.wire('a', w), hw.wire('b', w)
    outs = {n: hw.wire(n, c.get('flag_width', 1)) for n in sub}
    with muted():
        py4hw.FixedPointComparator(hw, 'cmp', a, f, b, f, *[outs.get(n) for n in OPTIONAL_FLAGS])
        sim = hw.getSimulator()
    x, y = int(c['x'], 16), int(c['y'], 16)
    a.put(x)
    b.put(y)
    with muted():
        sim.propagateAll()
    sx, sy = sgn(x, w), sgn(y, w)
    e3 = dict(gt=int(sx > sy), eq=int(sx == sy), lt=int(sx < sy))
    exp = {n: e3[n] for n in sub}
    got = {n: outs[n].get() for n in sub}
    print('replay optional outputs f=%r connected=%r a=%#x b=%#x -> expected %r observed %r' % (f, sub, x, y, exp, got))
    return got != exp


HISTORY_KEEP = 64     # pairs of operand history stored with a violation (the rig is replayed from a fresh build over them)



NT_SUBSAMPLE = 16    # thorough tier: only cases with content hash = 0 mod 16 are registered as distinct non-trivial (lower bound)
PER_MECHANISM = 3
M60 = (1 << 60) - 1


def report(run, case, viols):
    seen = run.__dict__.setdefault('_mechanisms', {})
    for v in viols:
        mech = stable_hash([v['key'], v['fields']])
        if seen.get(mech, 0) >= PER_MECHANISM:
            run.count('violations_same_mechanism_not_recorded')
            continue
        if run.violation(v['key'], v['fields'], dict(case, block=v['fields'].get('block')),
                         expected=v['expected'], observed=v['observed'], what=v['what']):
            seen[mech] = seen.get(mech, 0) + 1


def run_check(run, tier, seed, shard):
    run.assume('"rescaled by truncation to the result format" = bit truncation of the two\'s-complement product: floor(sa*sb / 2**low) mod 2**rw, '
               'low = fa+fb-fr (floor, not round-toward-zero)')
    run.assume('comparator judged only when a - b is representable in the operand format (as the statement says); other pairs are counted')
    run.assume('mixed-format configurations are included for the multiplier because its constructor accepts them and the statement speaks of '
               '"the result format"; Add/Sub/Comparator assert equal formats and are judged in same-format configurations only; '
               'result formats with more fraction bits than fa+fb (low < 0) are refused by the constructor and counted as refused')
    run.assume('output wires: Add/Sub/Mult assert r.getWidth() == sum(rf), so only the flag wires (gt, eq, lt, sign) can be wider than '
               'their natural width; a wider flag wire must read the zero-extended 0/1')
    run.assume('history: the blocks are combinational, so the outputs after propagateAll() are a function of the operand values applied in that step only; '
               'history workloads keep ONE instance alive and return to earlier operand pairs (directly, after a zero operand, after a swap, after a pair '
               'sharing one operand, after a special value); the oracle is the same exact integer arithmetic')
    run.assume('composition: a block computes a function of the values on its ports; which scope the operand wires were created in and what their '
               'local names are must not matter; the same wire on both ports means b = a')
    cfgs = configs(tier, seed)
    i, nsh = shard if shard else (0, 1)
    stats = Stats()
    per_class = Stats()
    formats_done = Stats()
    operand_wire_names = {}
    deadline = time.time() + (500 if tier == 'quick' else 2400)
    ncfg = 0
    for k, (af, bf, rf, mode, flags) in enumerate(cfgs):
        if run.too_many:
            break
        heavy = mode == 'exhaustive' and sum(af) + sum(bf) >= 14
        if not heavy and k % nsh != i:
            continue            # light configurations are dealt out whole; heavy ones are split by operand pair below
        cc = config_class(af, bf, rf)
        if time.time() > deadline:
            run.inconclusive.append('watchdog hit before configuration %r' % ((af, bf, rf),))
            break
        try:
            R = Rig(af, bf, rf, flags)
        except Exception as e:
            if cc == 'mixed_low<0':
                run.count('refused_low<0')
                continue
            run.violation('fxp_build_raises', dict(config_class=cc, relation='raises:' + type(e).__name__), dict(kind='build', af=af, bf=bf, rf=rf, flags=flags),
                          observed=repr(e)[:200], what='blocks for af=%r bf=%r rf=%r do not build: %r' % (af, bf, rf, e))
            continue
        ncfg += 1
        per_class['configs_' + cc] += 1
        if flags[:4] != (1, 1, 1, 1):
            per_class['configs_with_wide_flag_wires'] += 1
        scope = flags[4] if len(flags) > 4 else 'flat'
        per_class['configs_scope_' + scope] += 1
        operand_wire_names[scope] = '%s / %s' % R.operand_names
        rnd = rng(seed, 'C14', 'ops', af, bf, rf, flags, shard)
        e0 = run.evaluations
        npairs = 0
        for j, (x, y) in enumerate(operand_pairs(af, bf, mode, tier, rnd, scope, flags[5] if len(flags) > 5 else None)):
            if heavy and j % nsh != i:
                continue
            try:
                out = R.step(x, y)
            except Exception as e:
                run.violation('fxp_sim_raises', dict(config_class=cc, relation='raises:' + type(e).__name__), dict(kind='step', af=af, bf=bf, rf=rf, flags=flags, x=x, y=y),
                              observed=repr(e)[:200], what='propagateAll raises for af=%r bf=%r rf=%r: %r' % (af, bf, rf, e))
                break
            n, viols = judge(af, bf, rf, x, y, out, stats, flags)
            run.ev(n)
            npairs += 1
            if x and y:
                h = hash((af, bf, rf, flags, x >> 60, x & M60, y >> 60, y & M60))   # 60-bit limbs: hash(int) reduces modulo 2**61-1
                if tier == 'quick' or h % NT_SUBSAMPLE == 0:
                    run.nt(h)
            if viols:
                report(run, dict(kind='step', af=af, bf=bf, rf=rf, flags=flags, x=x, y=y), viols)
                if run.too_many:
                    break
            if run.evaluations % 10007 < n:
                run.sample(dict(af=af, bf=bf, rf=rf, flag_wire_widths=flags[:4], scope=scope, operand_wire_names=R.operand_names, a=hex(x), b=hex(y), observed={kk: (hex(v) if isinstance(v, int) else v) for kk, v in out.items()}))
            if npairs % 4096 == 0 and time.time() > deadline:
                run.inconclusive.append('watchdog hit inside configuration %r' % ((af, bf, rf),))
                break
        per_class['evaluations_' + cc] += run.evaluations - e0
        per_class['evaluations_scope_' + scope] += run.evaluations - e0
        if cc == 'same_format' and flags == (1, 1, 1, 1):
            formats_done['%d.%d.%d' % af] += npairs
    history_run(run, tier, seed, shard, stats, per_class, deadline)
    optional_output_run(run, tier, seed, shard, stats, per_class, deadline)
    run.extra['configurations'] = ncfg
    run.extra['per_config_class'] = dict(per_class)
    run.extra['judged_per_block'] = dict(stats)
    run.extra['same_format_operand_pairs'] = dict(formats_done)
    run.extra['operand_wire_local_names_per_scope'] = operand_wire_names
    if shard is None:
        _floors(run, stats)


def post_merge(run, tier, seed):
    st = Stats()
    st.update(run.extra.get('judged_per_block', {}))
    _floors(run, st)


def _floors(run, stats):
    if run.too_many or run.violations:
        return
    for k in ('mult', 'add', 'sub', 'sign', 'cmp'):
        if stats[k] == 0:
            run.inconclusive.append('deciding monitor never reached: %s' % k)
    sh = run.extra.get('history_steps_per_shape', {})
    for k in HISTORY_SHAPES:
        if not sh.get(k):
            run.inconclusive.append('history workload shape never exercised: %s' % k)
    ob = run.extra.get('optional_output_forms_built', {})
    oj = run.extra.get('optional_output_steps_judged', {})
    if len(ob) < 2:
        run.inconclusive.append('optional-output class: fewer than two constructor forms with unconnected outputs were built')
    for k in ob:
        if not oj.get(k):
            run.inconclusive.append('optional-output form built but never judged: %s' % k)
    for k in ('operands_equal', 'operands_differ'):
        if not oj.get(k):
            run.inconclusive.append('optional-output class never judged with %s' % k)
    hc = run.extra.get('history_step_classes', {})
    for k in ('step_returns_to_an_earlier_nonzero_pair', 'nonzero_pair_repeated_right_after_a_zero_operand', 'step_repeats_the_previous_pair',
              'step_shares_one_operand_with_the_previous_pair'):
        if not hc.get(k):
            run.inconclusive.append('history step class never observed: %s' % k)


def replay(run, case):
    c = case['case']
    if c.get('kind') == 'optional':
        bad = replay_optional(c)
        if bad:
            print('VIOLATION property=%s replay=%s' % (run.prop, 'replayed'))
        return 1 if bad else 0
    af, bf, rf = tuple(c['af']), tuple(c['bf']), tuple(c['rf'])
    flags = tuple(c.get('flags', (1, 1, 1, 1)))
    if c.get('kind') == 'build':
        try:
            Rig(af, bf, rf, flags)
            print('replay: builds')
            return 0
        except Exception as e:
            print('replay: build raises %r' % (e,))
            print('VIOLATION property=%s replay=%s' % (run.prop, 'replayed'))
            return 1
    if c.get('kind') == 'history':
        R = Rig(af, bf, rf, flags)
        rel = []
        for j, (x, y) in enumerate(c['seq']):
            x, y = int(x, 16), int(y, 16)
            out = R.step(x, y)
            n, viols = judge(af, bf, rf, x, y, out, Stats(), flags)
            print('replay history step %d af=%r bf=%r rf=%r a=%#x b=%#x ->' % (j, af, bf, rf, x, y), out)
            for v in viols:
                print('  ', v['key'], v['what'])
            rel += viols
        if rel:
            print('VIOLATION property=%s replay=%s' % (run.prop, 'replayed'))
        return 1 if rel else 0
    x, y = c['x'], c['y']
    x = int(x, 16) if isinstance(x, str) else x
    y = int(y, 16) if isinstance(y, str) else y
    R = Rig(af, bf, rf, flags)
    out = R.step(x, y)
    n, viols = judge(af, bf, rf, x, y, out, Stats(), flags)
    print('replay af=%r bf=%r rf=%r flag widths=%r a=%#x b=%#x ->' % (af, bf, rf, flags, x, y), out)
    blk = c.get('block')
    rel = [v for v in viols if blk is None or v['fields'].get('block') == blk] or viols
    for v in rel:
        print('  ', v['key'], v['what'])
    if rel:
        print('VIOLATION property=%s replay=%s' % (run.prop, 'replayed'))
    return 1 if rel else 0
