"""Random design generator for C01/C03/C19: compositions of catalogue blocks inside a harness `Dut` wrapper.

A plan is JSON-serialisable (what replay files contain) and can be instantiated any number of times
(twins) -- instantiate(plan) -> cosim.Design.

plan = {'name': str, 'scope': <scope>}
scope = {'cls': 'Dut', 'inputs': [[net, width]], 'outputs': [net], 'locals': [[net, width]],
         'nodes': [ {'kind': 'block', 'entry': name, 'cfg': cfg, 'inst': name, 'ins': [net..], 'outs': [net..]}
                  | {'kind': 'reg', 'inst': name, 'd': net, 'q': net, 'e': net|None, 'r': net|None, 'rv': int|None}
                  | {'kind': 'seq', 'entry': name, 'cfg': cfg, 'inst': name, 'ins': {port: net}, 'outs': {port: net}}
                  | {'kind': 'sub', 'inst': name, 'scope': <scope>, 'in_map': {inner: outer}, 'out_map': {inner: outer}} ]}
"""
from . import catalog
from .common import muted
from . import cosim

_SIG = {}


def signature(entry, cfg):
    """[(name, width, 'in'|'out')] in mk() call order, learnt by building once in a throw-away system."""
    key = (entry.name, repr(cfg))
    if key in _SIG:
        return _SIG[key]
    import py4hw
    hw = py4hw.HWSystem()
    calls = []

    def mk(name, w):
        wire = hw.wire('%s_%d' % (name, len(calls)), w)
        calls.append((name, w, wire))
        return wire
    with muted():
        ins, outs = entry.build(hw, cfg, mk)
    sig = []
    for name, w, wire in calls:
        if any(wire is x for x in ins):
            sig.append((name, w, 'in'))
        elif any(wire is x for x in outs):
            sig.append((name, w, 'out'))
        else:
            sig.append((name, w, 'other'))
    _SIG[key] = sig
    return sig


# blocks that cannot be part of a C01 comparison (DESIGN.md C01 exclusions) or that the generator refuses
EXCLUDE = {'RotateLeft', 'RotateRight', 'RotateLeftConstant', 'RotateRightConstant'}
# blocks whose evaluation is undefined for some inputs (divide by zero): allowed, the interpreter flags x
SLOW = {'BinaryToBCD', 'CountLeadingZeros'}


def usable_entries(max_inputs=8):
    out = []
    for e in catalog.ENTRIES:
        if e.name in EXCLUDE or 'noinput' in e.tags:
            continue
        out.append(e)
    return out


class Gen:
    def __init__(self, rnd, max_width=16, names=None, exclude=(), reserved_names=True, clock_domains=False):
        self.rnd = rnd
        self.clock_domains = clock_domains     # sub-blocks may get their own ClockDriver on a 1-bit net of the parent
        self.reserved_names = reserved_names
        self._used = set()
        self.max_width = max_width
        self.k = 0
        self.entries = [e for e in usable_entries() if e.name not in exclude]
        try:
            from . import seqcat
            # Sequence is refused by the generator (its clock method cannot be transpiled): keep designs generatable
            self.seq_entries = [e for e in seqcat.ENTRIES if e.name not in ('Sequence',) and e.name not in exclude]
        except ImportError:
            self.seq_entries = []

    RESERVED = ['begin', 'end', 'reg', 'wire', 'input', 'output', 'module', 'assign', 'always', 'case', 'signed', 'logic', 'bit', 'int',
                'initial', 'if', 'for', 'table', 'generate', 'do', 'var', 'time', 'event', 'real', 'integer', 'parameter', 'posedge', 'default']

    def fresh(self, prefix='n'):
        self.k += 1
        if self.reserved_names and prefix in ('n', 'in', 'q') and self.rnd.random() < 0.08:
            pool = [r for r in self.RESERVED if r not in self._used]
            if pool:
                n = self.rnd.choice(pool)
                self._used.add(n)
                return n          # a Verilog reserved word as net / port name (must be emitted with a prefix)
        return '%s%d' % (prefix, self.k)

    def pick_entry(self):
        for _ in range(50):
            e = self.rnd.choice(self.entries)
            cfgs = [c for c in e.quick if self._cfg_ok(e, c)]
            if cfgs:
                return e, self.rnd.choice(cfgs)
        raise RuntimeError('no entry')

    def _cfg_ok(self, e, cfg):
        sig = signature(e, cfg)
        if any(w > self.max_width for _, w, _ in sig):
            return False
        if len(sig) > 12:
            return False
        return True

    def scope(self, n_nodes, depth, n_inputs=None, cls='Dut'):
        rnd = self.rnd
        sc = dict(cls=cls, inputs=[], outputs=[], locals=[], nodes=[])
        pool = []          # (net, width) readable nets
        consumed = set()

        def new_input(w):
            n = self.fresh('in')
            sc['inputs'].append([n, w])
            pool.append((n, w))
            return n

        def pick_net(w):
            cands = [n for n, ww in pool if ww == w]
            if cands and rnd.random() < 0.85:
                # prefer recently produced nets so that depth grows, sometimes old ones (fan-out)
                n = cands[-1] if rnd.random() < 0.4 else rnd.choice(cands)
                consumed.add(n)
                return n
            n = new_input(w)
            consumed.add(n)
            return n

        pending_regs = []
        for _ in range(n_inputs if n_inputs is not None else rnd.randint(1, 3)):
            new_input(rnd.choice([1, 1, 2, 3, 4, 8, 8, self.max_width]))
        for i in range(n_nodes):
            r = rnd.random()
            if depth > 0 and r < 0.12:
                sub = self.scope(rnd.randint(1, max(1, n_nodes // 3)), depth - 1, cls='Mid')
                in_map = {}
                for n, w in sub['inputs']:
                    in_map[n] = pick_net(w)
                out_map = {}
                for n in sub['outputs']:
                    w = dict(self._net_widths(sub))[n]
                    o = self.fresh('n')
                    sc['locals'].append([o, w])
                    pool.append((o, w))
                    out_map[n] = o
                if not out_map:
                    continue
                node = dict(kind='sub', inst=self.fresh('u'), scope=sub, in_map=in_map, out_map=out_map)
                if self.clock_domains and has_state(sub) and rnd.random() < 0.6:
                    # a secondary clock domain: the driver's wire is an ordinary 1-bit net of the enclosing scope
                    # (sometimes a wire the enclosing block cannot see at all: generation has to refuse that)
                    node['clock'] = dict(name='clk2', net=None if rnd.random() < 0.25 else pick_net(1))
                sc['nodes'].append(node)
            elif r < 0.20 and self.seq_entries:
                e = rnd.choice(self.seq_entries)
                cfgs = [c for c in e.quick if all(w <= self.max_width for w in list(e.ports(c)[0].values()) + list(e.ports(c)[1].values()))
                        and len(e.ports(c)[0]) + len(e.ports(c)[1]) <= 10]
                if not cfgs:
                    continue
                cfg = rnd.choice(cfgs)
                pi, po = e.ports(cfg)
                ins = {k: pick_net(w) for k, w in pi.items()}
                outs = {}
                newnets = []
                for k, w in po.items():
                    o = self.fresh('n')
                    sc['locals'].append([o, w])
                    newnets.append((o, w))
                    outs[k] = o
                pool.extend(newnets)
                sc['nodes'].append(dict(kind='seq', entry=e.name, cfg=cfg, inst=self.fresh('s'), ins=ins, outs=outs))
            elif r < 0.36:
                w = rnd.choice([1, 2, 4, 8])
                wide = rnd.random() < 0.1
                if wide:
                    w = rnd.choice([33, 40, 64, 72])       # beyond 32 bits: sized literals, float precision, reset values in module names
                q = self.fresh('q')
                sc['locals'].append([q, w])
                pool.append((q, w))
                node = dict(kind='reg', inst=self.fresh('r'), d=None, q=q, w=w,
                            e=pick_net(1) if rnd.random() < 0.5 else None,
                            r=pick_net(1) if rnd.random() < 0.4 else None,
                            rv=rnd.choice([None, 0, 1, (1 << w) - 1, rnd.getrandbits(w)] + ([-1, (1 << w) + 5, (1 << (w - 1)) + 1] if wide else [])))
                if node['r'] is None and rnd.random() < 0.5:
                    node['rv'] = None
                pending_regs.append(node)
                sc['nodes'].append(node)
            else:
                e, cfg = self.pick_entry()
                sig = signature(e, cfg)
                ins, outs = [], []
                newnets = []
                for name, w, d in sig:
                    if d == 'in':
                        ins.append(pick_net(w))
                    elif d == 'out':
                        o = self.fresh('n')
                        sc['locals'].append([o, w])
                        newnets.append((o, w))      # readable only by later nodes: no combinational loop
                        outs.append(o)
                    else:
                        ins.append(None)
                pool.extend(newnets)
                sc['nodes'].append(dict(kind='block', entry=e.name, cfg=cfg, inst=self.fresh('b'), ins=ins, outs=outs))
        # close the registers: d may be any net of the right width, including downstream ones (feedback)
        for node in pending_regs:
            cands = [n for n, ww in pool if ww == node['w']]
            node['d'] = rnd.choice(cands) if cands and rnd.random() < 0.9 else new_input(node['w'])
            consumed.add(node['d'])
        # outputs: every local net nobody reads, plus a few random ones
        local_names = [n for n, _ in sc['locals']]
        outs = [n for n in local_names if n not in consumed]
        extra = [n for n in local_names if n in consumed and rnd.random() < 0.15]
        sc['outputs'] = outs + extra
        if not sc['outputs'] and local_names:
            sc['outputs'] = [local_names[-1]]
        return sc

    def _net_widths(self, sc):
        return [(n, w) for n, w in sc['inputs']] + [(n, w) for n, w in sc['locals']]

    def plan(self, n_nodes=None, depth=None):
        rnd = self.rnd
        n_nodes = n_nodes or rnd.randint(3, 14)
        depth = rnd.randint(0, 2) if depth is None else depth
        return dict(name=self.fresh('plan'), scope=self.scope(n_nodes, depth))


def has_state(sc):
    for n in sc['nodes']:
        if n['kind'] in ('reg', 'seq'):
            return True
        if n['kind'] == 'sub' and has_state(n['scope']):
            return True
    return False


def has_clock_domains(sc):
    for n in sc['nodes']:
        if n['kind'] == 'sub' and (n.get('clock') or has_clock_domains(n['scope'])):
            return True
    return False


def count_nodes(sc):
    c = 0
    for n in sc['nodes']:
        c += 1
        if n['kind'] == 'sub':
            c += count_nodes(n['scope'])
    return c


def _top_of(o):
    while getattr(o, 'parent', None) is not None:
        o = o.parent
    return o


def _build_scope(owner, logic, sc, nets, order=None):
    """owner: Logic that creates the local wires of this scope (the scope's own object)."""
    import py4hw
    for n, w in sc['locals']:
        if n not in nets:
            nets[n] = logic.wire(n, w)
    nodes = list(sc['nodes'])
    if order is not None:
        nodes = [nodes[i] for i in order]
    for node in nodes:
        k = node['kind']
        if k == 'block':
            e = catalog.by_name(node['entry'])
            cfg = _tup(node['cfg'])
            it_in = iter(node['ins'])
            it_out = iter(node['outs'])
            sig = signature(e, cfg)
            pos = [0]
            Wr = _Wrapper(logic, node['inst'])

            def mk(name, w, sig=sig, pos=pos, it_in=it_in, it_out=it_out):
                d = sig[pos[0]][2]
                pos[0] += 1
                if d == 'out':
                    return nets[next(it_out)]
                n = next(it_in)
                if n is None:
                    return logic.wire('x_%s_%s' % (node['inst'], name), w)
                return nets[n]
            _build_named(e, logic, node['inst'], cfg, mk)
        elif k == 'reg':
            py4hw.Reg(logic, node['inst'], nets[node['d']], nets[node['q']],
                      enable=nets[node['e']] if node['e'] else None, reset=nets[node['r']] if node['r'] else None,
                      reset_value=node['rv'])
        elif k == 'seq':
            from . import seqcat
            e = seqcat.by_name(node['entry'])
            cfg = seqcat.cfg_from_json(node['cfg']) if hasattr(seqcat, 'cfg_from_json') else _tup(node['cfg'])
            e.make(logic, node['inst'], cfg, {p_: nets[n] for p_, n in node['ins'].items()}, {p_: nets[n] for p_, n in node['outs'].items()})
        elif k == 'sub':
            sub = node['scope']
            C = cosim.Dut.cls(sub['cls'])
            obj = C(logic, node['inst'])
            inner = {}
            for n, w in sub['inputs']:
                inner[n] = nets[node['in_map'][n]]
                obj.addIn(n, inner[n])
            for n in sub['outputs']:
                inner[n] = nets[node['out_map'][n]]
            _build_scope(obj, obj, sub, inner)
            for n in sub['outputs']:
                obj.addOut(n, inner[n])
            if node.get('clock'):
                cn = node['clock']['net']
                cw = nets[cn] if cn is not None else py4hw.Wire(_top_of(logic), 'far_clk_' + node['inst'], 1)
                obj.clockDriver = py4hw.ClockDriver(node['clock']['name'], 25E6, wire=cw)
        else:
            raise ValueError(k)


class _Wrapper:
    def __init__(self, logic, name):
        self.logic = logic
        self.name = name


def _build_named(entry, parent, inst, cfg, mk):
    """catalogue build functions name their block 'd'; rename the instance so several can live in one scope."""
    before = set(parent.children.keys())
    entry.build(parent, cfg, mk)
    new = [k for k in parent.children.keys() if k not in before]
    if len(new) == 1 and new[0] == 'd':
        obj = parent.children.pop('d')
        obj.name = inst
        # keep dict order = instantiation order
        parent.children[inst] = obj


def _tup(x):
    if isinstance(x, list):
        return tuple(_tup(y) for y in x)
    if isinstance(x, str) and x.startswith(('0x', '-0x')):
        return int(x, 16)
    return x


def instantiate(plan, order=None):
    import py4hw
    hw = py4hw.HWSystem()
    sc = plan['scope']
    D = cosim.Dut.cls(sc['cls'])
    with muted():
        dut = D(hw, 'dut')
        nets = {}
        ins = []
        for n, w in sc['inputs']:
            nets[n] = hw.wire(n, w)
            ins.append(nets[n])
        for n, w in sc['locals']:
            if n in sc['outputs']:
                nets[n] = hw.wire(n, w)
        for w in ins:
            dut.addIn(w.name, w)
        _build_scope(dut, dut, sc, nets, order)
        outs = [nets[n] for n in sc['outputs']]
        for w in outs:
            dut.addOut(w.name, w)
    return cosim.Design(hw, dut, ins, outs, plan['name'], meta=dict(sequential=has_state(sc), nodes=count_nodes(sc), clock_domains=has_clock_domains(sc)))
