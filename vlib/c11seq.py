"""C11 construction-sequence monitor: plan language, reference model, executor.

A plan is a JSON list of ops.  `Model.apply(op)` is the reference: it says, from its own name/driver tables only,
whether the op must raise (and at which nested step) and what the registry looks like afterwards.  `Exec.run(op)`
performs the op on real py4hw objects.  After every op the real registries (parent.children, parent._wires,
wire.getSource()) are compared with the model for every object that is not a half-registered newcomer.
"""

PRIMS = {  # library primitives: name -> (number of inputs, constructor argument style)
    'Buf': 1, 'Not': 1, 'And2': 2, 'Or2': 2, 'Xor2': 2, 'Nand2': 2, 'Nor2': 2, 'Constant': 0, 'Reg': 1, 'Mux2': 3, 'Sequence': 0,
}

STRUCT_CLS = {'Nand2', 'Nor2', 'Xor2'}     # library "leaves" of the plan language that are structural (driver is a primitive inside)

_CLS = {}


def classes():
    if _CLS:
        return _CLS
    import py4hw

    class HLeaf(py4hw.Logic):
        """harness primitive (has propagate): ports in the order ins, outs, inouts"""
        def __init__(self, parent, name, ins=(), outs=(), inouts=()):
            super().__init__(parent, name)
            for i, w in enumerate(ins):
                self.addIn('i%d' % i, w)
            for i, w in enumerate(outs):
                self.addOut('o%d' % i, w)
            for i, w in enumerate(inouts):
                self.addInOut('io%d' % i, w)

        def propagate(self):
            pass

    class HWrap(py4hw.Logic):
        """harness structural wrapper: ports on outer wires, body builds the children"""
        def __init__(self, parent, name, ins, outs, body):
            super().__init__(parent, name)
            for i, w in enumerate(ins):
                self.addIn('i%d' % i, w)
            for i, w in enumerate(outs):
                self.addOut('o%d' % i, w)
            body(self)

    _CLS.update(HLeaf=HLeaf, HWrap=HWrap)
    return _CLS


def recipe(src, name):
    from . import catalog, netblocks
    return catalog.by_name(name) if src == 'catalog' else netblocks.by_name(name)


def tup(x):
    if isinstance(x, list):
        return tuple(tup(y) for y in x)
    if isinstance(x, str) and x.startswith(('0x', '-0x')):
        return int(x, 16)
    return x


class Unjudged(Exception):
    """the op collides with / refers to an object whose registration is outside the statement"""


HALF = 'HALF'   # driven (or maybe driven) by a half-registered newcomer: identity not judged, not reused


class Model:
    def __init__(self):
        self.child_names = {'top': {}}                 # sid -> {name: cid | None (half-registered newcomer)}
        self.wire_names = {'top': {'clk': 'W_clk'}}    # sid -> {name: wid}
        self.wires = {'W_clk': dict(scope='top', name='clk', width=1, kind='wire', driver=None, reg=True)}
        self.children = {}                             # cid -> dict(scope, name)
        self.ifaces = {}                               # iid -> dict(scope, name, s2s=[wid], k2s=[wid], n_s2s=[name], n_k2s=[name])
        self.used = set()                              # wids that were ever attached to a port of some block
        self.dyn_attached = set()                      # AbstractLogic classes that got their behaviour at class level

    # ---- helpers
    def _name_taken(self, sid, name):
        """True: a wire of that name is registered and must stay; Unjudged: the name belongs to a wire that was dropped from
        its only interface and is used by nothing -- whether it still counts as a wire of the parent is not stated"""
        wid = self.wire_names[sid].get(name)
        if wid is None:
            return False
        if self.wires[wid].get('free'):
            raise Unjudged(name)
        return True

    def _drive(self, wids, who):
        """ports created in order; returns index of the first conflicting one or None"""
        seen = []
        for k, wid in enumerate(wids):
            w = self.wires[wid]
            if w['kind'] != 'wire' or w['driver'] == HALF:
                return 'unjudged'
            if w['driver'] is not None:
                for x in seen:                      # free wires already taken by this failed newcomer
                    self.wires[x]['driver'] = HALF
                return k
            w['driver'] = (who, k)
            seen.append(wid)
        return None

    def _new_wire(self, sid, name, wid, width, kind='wire'):
        if self._name_taken(sid, name):
            return True
        self.wire_names[sid][name] = wid
        self.wires[wid] = dict(scope=sid, name=name, width=width, kind=kind, driver=None, reg=True)
        return False

    def _new_child(self, sid, name, cid, prim=False, ins=(), outs=()):
        if name in self.child_names[sid]:
            return True
        self.child_names[sid][name] = cid
        # prim: the object's own ports register as sink/source; ins/outs: wires its own in/out ports are attached to
        self.children[cid] = dict(scope=sid, name=name, prim=prim, ins=list(ins), outs=list(outs))
        return False

    def _half_child(self, cid):
        c = self.children.pop(cid)
        self.child_names[c['scope']][c['name']] = None

    def apply(self, op, path=()):
        """-> (expected, fail_path): expected True = must raise, False = must not raise, None = not judged"""
        k = op['op']
        try:
            return getattr(self, 'op_' + k)(op, path)
        except (KeyError, Unjudged):
            return None, None       # refers to something that does not exist (any more): outside the generator's contract

    def op_wire(self, op, path):
        return (self._new_wire(op['scope'], op['name'], op['wid'], op['width'], op.get('kind', 'wire')), path)

    def op_wires(self, op, path):
        for i, wid in enumerate(op['wids']):
            if self._new_wire(op['scope'], '%s_%d' % (op['prefix'], i), wid, op['width']):
                for x in op['wids'][:i]:        # created before the refusal, but wires() never returned them: not reused
                    self.wires[x]['reg'] = False
                return True, path
        return False, path

    def op_scope(self, op, path):
        if self._new_child(op['scope'], op['name'], op['cid']):
            return True, path
        self.child_names[op['sid']] = {}
        self.wire_names[op['sid']] = {}
        return False, path

    def _leaf_prim(self, op):
        """is the object a primitive (has propagate/clock) at the moment its ports are declared?  For an AbstractLogic block
        ('Dyn') that depends on when and where the behaviour was attached"""
        if op['cls'] != 'Dyn':
            return op['cls'] not in STRUCT_CLS
        d = op['dyn']
        if d['mode'] == 'class_attach':
            self.dyn_attached.add(d['klass'])
        return d['mode'] in ('inst_before', 'class_attach') or d['klass'] in self.dyn_attached

    def op_leaf(self, op, path):
        for wid in op['ins'] + op['outs'] + op.get('inouts', []):
            if self.wires[wid]['kind'] != 'wire':
                return None, None
        if op['name'] in self.child_names[op['scope']]:
            return True, path           # refused before anything else happens (no behaviour gets attached either)
        prim = self._leaf_prim(op)
        self._new_child(op['scope'], op['name'], op['cid'], prim, op['ins'], op['outs'])
        self.used.update(op['ins'] + op['outs'] + op.get('inouts', []))
        if not prim and op['cls'] not in STRUCT_CLS:
            return False, path          # a plain container with ports: nothing registers as sink or source
        r = self._drive(op['outs'] + op.get('inouts', []), op['cid'])
        if r == 'unjudged':
            return None, None
        if r is not None:
            self._half_child(op['cid'])
            return True, path
        return False, path

    def op_cat(self, op, path):
        w_of = lambda n: op['bind'].get(n) or op['new'][n]
        if self._new_child(op['scope'], op['name'], op['cid'], bool(op.get('prim')), [w_of(n) for n in op.get('insn', [])], [w_of(n) for n in op['outs']]):
            return True, path
        for mkname, width in op['mkseq']:
            if mkname in op['bind']:
                if self.wires[op['bind'][mkname]]['width'] != width or self.wires[op['bind'][mkname]]['kind'] != 'wire':
                    return None, None
                continue
            if self._new_wire(op['scope'], '%s_%s' % (op['name'], mkname), op['new'][mkname], width):
                self._half_child(op['cid'])
                return True, path
        outs = [op['bind'].get(n) or op['new'][n] for n in op['outs']]
        self.used.update(list(op['bind'].values()) + list(op['new'].values()))
        r = self._drive(outs, op['cid'])
        if r == 'unjudged':
            return None, None
        if r is not None:
            for wid in outs:
                if self.wires[wid]['driver'] is None or self.wires[wid]['driver'][0] == op['cid']:
                    self.wires[wid]['driver'] = HALF
            self._half_child(op['cid'])
            return True, path
        return False, path

    def op_wrap(self, op, path):
        if self._new_child(op['scope'], op['name'], op['cid']):
            return True, path
        self.child_names[op['sid']] = {}
        self.wire_names[op['sid']] = {}
        for wid in op['ins'] + op['outs']:
            self.wires[wid]
        self.used.update(op['ins'] + op['outs'])
        for j, inner in enumerate(op['inner']):
            e, fp = self.apply(inner, path + (j,))
            if e is None:
                return None, None
            if e:
                self._half_child(op['cid'])
                return True, fp
        return False, path

    def _unreg(self, wid):
        w = self.wires[wid]
        if not w['reg']:
            raise KeyError(wid)
        del self.wire_names[w['scope']][w['name']]
        return w

    def _rereg(self, w, wid, sid, name):
        w['scope'], w['name'] = sid, name
        if self._name_taken(sid, name):
            w['reg'] = False      # half-registered: removed from the old table, refused by the new one
            return True
        self.wire_names[sid][name] = wid
        return False

    def op_rename(self, op, path):
        w = self._unreg(op['wid'])
        return self._rereg(w, op['wid'], w['scope'], op['new']), path

    def op_reparent(self, op, path):
        w = self._unreg(op['wid'])
        return self._rereg(w, op['wid'], op['to'], w['name']), path

    def op_reparentAndRename(self, op, path):
        w = self._unreg(op['wid'])
        return self._rereg(w, op['wid'], op['to'], op['new']), path

    def op_iface(self, op, path):
        self.wire_names[op['scope']]
        self.ifaces[op['iid']] = dict(scope=op['scope'], name=op['name'], s2s=[], k2s=[], n_s2s=[], n_k2s=[])
        return False, path

    def op_axi(self, op, path):
        """a library interface class: its constructor adds the signals one after the other"""
        self.wire_names[op['scope']]
        f = dict(scope=op['scope'], name=op['name'], s2s=[], k2s=[], n_s2s=[], n_k2s=[])
        made = []
        for d, name, width, wid in op['sigs']:
            if self._new_wire(op['scope'], op['name'] + '_' + name, wid, width):
                for x in made:          # created before the refusal, the interface object was never returned: not reused
                    self.wires[x]['reg'] = False
                return True, path
            made.append(wid)
            f[d].append(wid)
            f['n_' + d].append(name)
        self.ifaces[op['iid']] = f
        return False, path

    def op_subif(self, op, path):
        """AXI4Interface.getWriteSubInterface()/getReadSubInterface(): a new interface holding the parent's wires by reference"""
        p = self.ifaces[op['of']]
        f = dict(scope=p['scope'], name='%s_sub_%s' % (p['name'], op['which']), s2s=[], k2s=[], n_s2s=[], n_k2s=[])
        for d in ('s2s', 'k2s'):
            for name in op['names'][d]:
                if name not in p['n_' + d]:
                    raise Unjudged(name)            # the library raises 'not found': not a clause of this property
                f[d].append(p[d][p['n_' + d].index(name)])
                f['n_' + d].append(name)
        self.ifaces[op['iid']] = f
        return False, path

    def op_ifref(self, op, path):
        p, f = self.ifaces[op['of']], self.ifaces[op['iid']]
        d = op['dir']
        if op['name'] not in p['n_' + d]:
            raise Unjudged(op['name'])
        f[d].append(p[d][p['n_' + d].index(op['name'])])
        f['n_' + d].append(op['name'])
        return False, path

    def op_ifremove(self, op, path):
        """Interface.removeSourceToSink/removeSinkToSource: the interface forgets the signal.  The wire stays a wire of its parent
        (registered, name taken) as long as another live interface lists it or a port is attached to it"""
        f = self.ifaces[op['iid']]
        d = op['dir']
        if op['name'] not in f['n_' + d]:
            raise Unjudged(op['name'])
        k = f['n_' + d].index(op['name'])
        wid = f[d].pop(k)
        f['n_' + d].pop(k)
        held = any(wid in g['s2s'] or wid in g['k2s'] for g in self.ifaces.values())
        if not held and wid not in self.used:
            self.wires[wid]['free'] = True
        return False, path

    def op_ifwire(self, op, path):
        f = self.ifaces[op['iid']]
        if self._new_wire(f['scope'], f['name'] + '_' + op['name'], op['wid'], op['width']):
            return True, path
        f[op['dir']].append(op['wid'])
        f['n_' + op['dir']].append(op['name'])
        return False, path

    def op_ifleaf(self, op, path):
        f = self.ifaces[op['iid']]
        driven = f['s2s'] if op['role'] == 'source' else f['k2s']
        read = f['k2s'] if op['role'] == 'source' else f['s2s']
        if self._new_child(op['scope'], op['name'], op['cid'], True, read, driven):
            return True, path
        self.used.update(list(read) + list(driven))
        r = self._drive(list(driven), op['cid'])
        if r == 'unjudged':
            return None, None
        if r is not None:
            # the leaf itself was fully constructed before addInterface... raised: it stays judged, with the ports that
            # existed when the call was refused (source: out ports come first; sink: the s2s in ports come first)
            c = self.children[op['cid']]
            c['outs'] = list(driven[:r])
            c['ins'] = [] if op['role'] == 'source' else list(read)
            return True, path
        return False, path


    def op_disconnect(self, op, path):
        """disconnectWireFromLogicObject(w, obj): a primitive whose own out port is the source of w releases the wire (a new
        driver may follow); a primitive reading w is detached; anything else (structural block, unrelated object) is refused
        with 'wire and object are not connected' and the source stays"""
        w = self.wires[op['wid']]
        c = self.children[op['cid']]
        if w['kind'] != 'wire' or w['driver'] == HALF:
            return None, None
        if c['prim'] and op['wid'] in c['outs'] and isinstance(w['driver'], tuple) and w['driver'][0] == op['cid']:
            w['driver'] = None
            c['outs'].remove(op['wid'])
            return False, path
        if c['prim'] and op['wid'] in c['ins']:
            c['ins'].remove(op['wid'])
            return False, path
        return True, path


    def op_addport(self, op, path):
        """child.addOut/addIn(name, wire) (or reconnectIn) on a block that already exists -- typically after one of its ports was
        detached by disconnectWireFromLogicObject; the port name may be the one of the detached port or a new one.  An out port of
        a primitive on an ordinary wire that already has a driver must be refused (and change nothing), whatever the history of
        the block; on a free wire it becomes the driver; in ports never conflict"""
        w = self.wires[op['wid']]
        c = self.children[op['cid']]
        if w['kind'] != 'wire' or w['driver'] == HALF:
            return None, None
        if op['dir'] == 'in':
            c['ins'].append(op['wid'])
            self.used.add(op['wid'])
            return False, path
        if not c['prim']:
            return None, None
        if w['driver'] is not None:
            return True, path
        w['driver'] = (op['cid'], 'readd')
        c['outs'].append(op['wid'])
        self.used.add(op['wid'])
        return False, path


class Abort(BaseException):
    pass


class Exec:
    def __init__(self):
        import py4hw
        self.py4hw = py4hw
        self.hw = py4hw.HWSystem()
        self.scopes = {'top': self.hw}
        self.wires = {'W_clk': self.hw._wires['clk']}
        self.children = {}
        self.ifaces = {}
        self.drv = {}        # wid -> port object recorded when the driver was accepted
        self.at = None
        self.notes = []

    def run(self, op, path=()):
        self.at = path
        getattr(self, 'op_' + op['op'])(op, path)

    def op_wire(self, op, path):
        s = self.scopes[op['scope']]
        self.wires[op['wid']] = s.bidir_wire(op['name'], op['width']) if op.get('kind') == 'bidir' else s.wire(op['name'], op['width'])

    def op_wires(self, op, path):
        s = self.scopes[op['scope']]
        ws = s.wires(op['prefix'], len(op['wids']), op['width'])
        for wid, w in zip(op['wids'], ws):
            self.wires[wid] = w

    def op_scope(self, op, path):
        c = self.py4hw.Logic(self.scopes[op['scope']], op['name'])
        self.children[op['cid']] = c
        self.scopes[op['sid']] = c

    def op_leaf(self, op, path):
        p = self.py4hw
        s = self.scopes[op['scope']]
        i = [self.wires[x] for x in op['ins']]
        o = [self.wires[x] for x in op['outs']]
        io = [self.wires[x] for x in op.get('inouts', [])]
        cls = op['cls']
        if cls == 'Dyn':
            return self._dyn_leaf(op, s, i, o, io)
        if cls == 'HLeaf':
            c = classes()['HLeaf'](s, op['name'], i, o, io)
        elif cls == 'Constant':
            c = p.Constant(s, op['name'], 1, o[0])
        elif cls == 'Sequence':
            c = p.Sequence(s, op['name'], [1, 0], o[0])
        else:
            c = getattr(p, cls)(s, op['name'], *(i + o))
        self.children[op['cid']] = c
        if c.isPrimitive() != (cls not in STRUCT_CLS):
            self.notes.append('the plan language believes %s is %s' % (cls, 'structural' if cls in STRUCT_CLS else 'primitive'))
        ports = list(c.outPorts) + list(c.inOutPorts)
        for wid, port in zip(op['outs'] + op.get('inouts', []), ports):
            if c.isPrimitive():
                self.drv[wid] = port            # the leaf's own port object must be, and stay, the source
            else:
                self.drv[wid] = self._inside(self.wires[wid].getSource(), c, op['cls'])

    def _dyn_leaf(self, op, s, i, o, io):
        """py4hw.AbstractLogic(class_name) object whose propagate()/clock() is attached afterwards: to the instance
        (types.MethodType, as emulation/verilatorwrapping.py does) before or after its ports, or to the class"""
        import types
        d = op['dyn']
        if not hasattr(self, 'dyn'):
            self.dyn = {}
        if op['name'] in s.children:
            K = self.dyn.get(d['klass']) or self.py4hw.AbstractLogic(d['klass'])
            return K(s, op['name'])         # raises: duplicate child name
        K = self.dyn.get(d['klass'])
        if K is None:
            K = self.dyn[d['klass']] = self.py4hw.AbstractLogic(d['klass'])

        def behaviour(me):
            pass
        if d['mode'] == 'class_attach':
            setattr(K, d['meth'], behaviour)
        c = K(s, op['name'])
        self.children[op['cid']] = c
        if d['mode'] == 'inst_before':
            setattr(c, d['meth'], types.MethodType(behaviour, c))
        for k, w in enumerate(i):
            c.addIn('i%d' % k, w)
        for k, w in enumerate(o):
            c.addOut('o%d' % k, w)
        for k, w in enumerate(io):
            c.addInOut('io%d' % k, w)
        if d['mode'] == 'inst_after':
            setattr(c, d['meth'], types.MethodType(behaviour, c))
        if d['mode'] in ('inst_before', 'class_attach'):
            for wid, port in zip(op['outs'] + op.get('inouts', []), list(c.outPorts) + list(c.inOutPorts)):
                self.drv[wid] = port

    def _inside(self, port, block, what):
        q = port.parent if port is not None else None
        while q is not None and q is not block:
            q = q.parent
        if q is None:
            self.notes.append('an output of %s is not driven from inside the block' % what)
        return port

    def op_cat(self, op, path):
        s = self.scopes[op['scope']]
        cont = self.py4hw.Logic(s, op['name'])
        seq = []

        def mk(n, w):
            seq.append([n, w])
            if n in op['bind']:
                return self.wires[op['bind'][n]]
            wire = s.wire('%s_%s' % (op['name'], n), w)
            self.wires[op['new'][n]] = wire
            return wire
        try:
            ins, outs = recipe(op['src'], op['entry']).build(cont, tup(op['cfg']), mk)
        finally:
            if seq != [list(x) for x in op['mkseq']][:len(seq)]:
                self.notes.append('catalogue recipe %s asked for other wires than the plan recorded' % op['entry'])
        self.children[op['cid']] = cont
        if 'prim' in op and cont.children['d'].isPrimitive() != bool(op['prim']):
            self.notes.append('catalogue recipe %s: primitive/structural differs from what the plan recorded' % op['entry'])
        for n in op['outs']:
            wid = op['bind'].get(n) or op['new'][n]
            self.drv[wid] = self._inside(self.wires[wid].getSource(), cont, op['entry'])

    def op_wrap(self, op, path):
        s = self.scopes[op['scope']]

        def body(me):
            self.scopes[op['sid']] = me
            for j, inner in enumerate(op['inner']):
                self.run(inner, path + (j,))
        c = classes()['HWrap'](s, op['name'], [self.wires[x] for x in op['ins']], [self.wires[x] for x in op['outs']], body)
        self.children[op['cid']] = c

    def op_disconnect(self, op, path):
        obj = self.children[op['cid']]
        if op.get('inner'):
            obj = obj.children['d']         # the catalogue block inside its container
        self.py4hw.disconnectWireFromLogicObject(self.wires[op['wid']], obj)

    def op_addport(self, op, path):
        obj = self.children[op['cid']]
        wire = self.wires[op['wid']]
        ports = obj.inPorts if op['dir'] == 'in' else obj.outPorts
        name = op['name']
        if op['same']:
            detached = [p for p in ports if p.wire is None]
            if detached:
                name = detached[op.get('which', 0) % len(detached)].name
                self.same_resolved = getattr(self, 'same_resolved', 0) + 1
        if op['dir'] == 'in':
            if op.get('via') == 'reconnectIn' and op['same'] and detached:
                obj.reconnectIn(name, wire)
            else:
                obj.addIn(name, wire)
            return
        obj.addOut(name, wire)
        att = [p for p in obj.outPorts if p.wire is wire]
        if obj.isPrimitive() and att:
            self.drv[op['wid']] = att[-1]

    def op_rename(self, op, path):
        self.wires[op['wid']].rename(op['new'])

    def op_reparent(self, op, path):
        self.wires[op['wid']].reparent(self.scopes[op['to']])

    def op_reparentAndRename(self, op, path):
        self.wires[op['wid']].reparentAndRename(self.scopes[op['to']], op['new'])

    def op_iface(self, op, path):
        self.ifaces[op['iid']] = self.py4hw.Interface(self.scopes[op['scope']], op['name'])

    def op_axi(self, op, path):
        from py4hw.logic.bus import axi
        f = getattr(axi, op['cls'])(self.scopes[op['scope']], op['name'], *op['args'])
        self.ifaces[op['iid']] = f
        n = 0
        for d, name, width, wid in op['sigs']:
            w = f.getSourceToSink(name) if d == 's2s' else f.getSinkToSource(name)
            if w.getWidth() != width:
                self.notes.append('%s signal %s has another width than the plan recorded' % (op['cls'], name))
            self.wires[wid] = w
            n += 1
        if n != len(f.sourceToSink) + len(f.sinkToSource):
            self.notes.append('%s has other signals than the plan recorded' % op['cls'])

    def op_subif(self, op, path):
        p = self.ifaces[op['of']]
        f = p.getWriteSubInterface() if op['which'] == 'write' else p.getReadSubInterface()
        self.ifaces[op['iid']] = f
        if [x[0] for x in f.sourceToSink] != list(op['names']['s2s']) or [x[0] for x in f.sinkToSource] != list(op['names']['k2s']):
            self.notes.append('sub-interface %s has other signals than the plan recorded' % op['which'])

    def op_ifref(self, op, path):
        f, p = self.ifaces[op['iid']], self.ifaces[op['of']]
        if op['dir'] == 's2s':
            f.addSourceToSinkRef(p, op['name'])
        else:
            f.addSinkToSourceRef(p, op['name'])

    def op_ifremove(self, op, path):
        f = self.ifaces[op['iid']]
        if op['dir'] == 's2s':
            f.removeSourceToSink(op['name'])
        else:
            f.removeSinkToSource(op['name'])

    def op_ifwire(self, op, path):
        f = self.ifaces[op['iid']]
        w = f.addSourceToSink(op['name'], op['width']) if op['dir'] == 's2s' else f.addSinkToSource(op['name'], op['width'])
        self.wires[op['wid']] = w

    def op_ifleaf(self, op, path):
        c = classes()['HLeaf'](self.scopes[op['scope']], op['name'])
        self.children[op['cid']] = c
        f = self.ifaces[op['iid']]
        if op['role'] == 'source':
            c.addInterfaceSource(op['prefix'], f)
        else:
            c.addInterfaceSink(op['prefix'], f)
        for port in c.outPorts:
            for wid, w in self.wires.items():
                if w is port.wire:
                    self.drv[wid] = port


def verify(model, ex):
    """real registries vs the model, for everything that is not a half-registered newcomer -> list of (what, detail)"""
    bad = []
    for sid, names in model.child_names.items():
        obj = ex.scopes.get(sid)
        if obj is None:
            continue       # scope of a half-built wrapper
        for name, cid in names.items():
            if cid is None or cid not in ex.children:
                continue
            if obj.children.get(name) is not ex.children[cid]:
                bad.append(('child', '%s.children[%r] is no longer the first child' % (sid, name)))
    for sid, names in model.wire_names.items():
        obj = ex.scopes.get(sid)
        if obj is None:
            continue
        for name, wid in names.items():
            if wid not in ex.wires or model.wires[wid].get('free'):
                continue
            if obj._wires.get(name) is not ex.wires[wid]:
                bad.append(('wire', '%s._wires[%r] is no longer the first wire' % (sid, name)))
    for wid, w in model.wires.items():
        d = w['driver']
        if d is None or d == HALF or w['kind'] != 'wire' or wid not in ex.drv or wid not in ex.wires:
            continue
        if ex.wires[wid].getSource() is not ex.drv[wid]:
            bad.append(('driver', 'getSource() of %s is no longer the first driver port' % w['name']))
    # global invariant, read from the object graph: over all live primitive blocks, an ordinary wire has at most one out port
    # attached, and that port is wire.source
    att = {}
    for cid, c in model.children.items():
        if not c['prim'] or cid not in ex.children:
            continue
        obj = ex.children[cid]
        if not obj.isPrimitive():
            obj = obj.children.get('d')         # catalogue primitive inside its container
            if obj is None or not obj.isPrimitive():
                continue
        for p in obj.outPorts:
            if p.wire is not None:
                att.setdefault(id(p.wire), []).append(p)
    rev = dict((id(x), wid) for wid, x in ex.wires.items())
    for rid, ps in att.items():
        wid = rev.get(rid)
        w = model.wires.get(wid)
        if w is None or w['kind'] != 'wire' or w['driver'] == HALF:
            continue
        real = ex.wires[wid]
        ex.inv_checked = getattr(ex, 'inv_checked', 0) + 1
        if len(ps) > 1:
            bad.append(('two_drivers', 'wire %s has %d out ports of primitives attached: %s' % (w['name'], len(ps), ', '.join(p.getFullPath() for p in ps[:3]))))
        elif len(ps) == 1 and real.getSource() is not ps[0]:
            bad.append(('source_mismatch', 'the only out port attached to wire %s is %s but getSource() is %s' % (
                w['name'], ps[0].getFullPath(), real.getSource().getFullPath() if real.getSource() is not None else None)))
    return bad


def run_plan(plan):
    """-> dict(outcome=..., step=k, faults_seen=n, exc=[...]) ; outcome in ok | fault_accepted | accept_raised |
    raised_elsewhere | earlier_replaced"""
    from .common import muted
    model = Model()
    res = dict(outcome='ok', faults=0, judged=0, exc=[], notes=[])
    with muted():
        ex = Exec()
        for k, op in enumerate(plan):
            exp, fpath = model.apply(op, (k,))
            if exp is None:
                res['notes'].append('step %d not judged (refers to a half-registered object)' % k)
                break
            raised = None
            try:
                ex.run(op, (k,))
            except Exception as e:      # noqa
                raised = e
            res['judged'] += 1
            if op['op'] == 'addport':
                rk = '%s_%s_name_%s' % (op['dir'], 'same' if op['same'] else 'new', 'must_raise' if exp else 'must_accept')
                res.setdefault('readd', {})
                res['readd'][rk] = res['readd'].get(rk, 0) + 1
            if exp and raised is None:
                res.update(outcome='fault_accepted', step=k, detail='%s did not raise' % op['op'])
                break
            if not exp and raised is not None:
                res.update(outcome='accept_raised', step=k, detail='%s raised %r' % (op['op'], raised))
                break
            if exp:
                res['faults'] += 1
                res['exc'].append(type(raised).__name__)
                if tuple(ex.at) != tuple(fpath):
                    res.update(outcome='raised_elsewhere', step=k, detail='raised at %r (%r), expected at %r' % (ex.at, raised, fpath))
                    break
            bad = verify(model, ex)
            if bad:
                res.update(outcome='earlier_replaced', step=k, what=bad[0][0], detail=bad[0][1], after_fault=bool(exp))
                break
        res['notes'] += ex.notes
        res['inv_checked'] = getattr(ex, 'inv_checked', 0)
        res['same_resolved'] = getattr(ex, 'same_resolved', 0)
    return res
