"""C03 helper: the reserved words of IEEE Std 1364-2005 (Annex B), written out here independently of py4hw's tables and of the
lexer of vlib/vlog, the workload that names ports, nets, instances and interface elements after every one of them, and the oracle
clause "no identifier declared or used in the emitted text is a reserved word".
"""

# IEEE Std 1364-2005, Annex B "List of keywords" (grouped by what they are for, not alphabetically: typed from the standard)
_GATES = 'and nand or nor xor xnor buf not bufif0 bufif1 notif0 notif1'
_SWITCHES = 'nmos pmos cmos rnmos rpmos rcmos tran rtran tranif0 tranif1 rtranif0 rtranif1 pullup pulldown'
_NETS = 'wire uwire tri tri0 tri1 triand trior trireg wand wor supply0 supply1'
_STRENGTHS = 'highz0 highz1 pull0 pull1 strong0 strong1 weak0 weak1 small medium large scalared vectored'
_TYPES = 'reg integer real realtime time event signed unsigned parameter localparam specparam defparam genvar'
_UNITS = ('module macromodule endmodule primitive endprimitive table endtable function endfunction task endtask '
          'generate endgenerate specify endspecify config endconfig')
_PORTS = 'input output inout automatic'
_PROC = ('always initial assign deassign force release begin end fork join if else case casex casez default endcase '
         'for while repeat forever wait disable posedge negedge edge')
_SPECIFY = 'ifnone pulsestyle_onevent pulsestyle_ondetect showcancelled noshowcancelled'
_CONFIG = 'cell design incdir include instance liblist library use'

WORDS_1364_2005 = tuple(sorted(set(' '.join([_GATES, _SWITCHES, _NETS, _STRENGTHS, _TYPES, _UNITS, _PORTS, _PROC, _SPECIFY, _CONFIG]).split())))
assert len(WORDS_1364_2005) == 124, len(WORDS_1364_2005)
WORDSET = frozenset(WORDS_1364_2005)


def identifiers_of(d):
    """(module, role, name) for every identifier the parsed design declares or uses as a name."""
    for mname, mi in d.mods.items():
        yield mname, 'module name', mname
        for n, sy in mi.syms.items():
            yield mname, ('port' if getattr(sy, 'dir', None) else 'net'), n
        for inst in mi.instances:
            yield mname, 'instance name', getattr(inst, 'name', None)
            yield mname, 'instantiated module', getattr(inst, 'module', None)
            for pn, e in (inst.conns or ()):
                yield mname, 'connected port', pn


def reserved_identifiers(d):
    return [(m, role, n) for m, role, n in identifiers_of(d) if isinstance(n, str) and n in WORDSET]


# --------------------------------------------------------------------------- workload

SHAPES = ('root input port', 'root output port', 'child ports', 'grandchild ports', 'interface elements', 'net and instances')


def word_designs(words=WORDS_1364_2005):
    """(label, word, shape, builder(hw, dut) -> (ins, outs)).  One word per design (the front end stops at the first reserved word it
    meets, so a second word in the same text could hide behind the first): the word names an input / an output port of the generated
    root, the ports of a non-inlined child and of a grandchild, an interface element attached without a prefix (source and sink side,
    both directions), a local net and the instances (inlined primitive, named module, structural child) of a block."""
    import py4hw
    from . import cosim
    out = []
    for word in words:
        def root_in(hw, dut, w_=word):
            # the ports of the generated module itself; inlined primitives and a named module read them
            a = hw.wire(w_, 3); b = hw.wire('b', 3); o = hw.wire('o', 3); p = hw.wire('p', 3)
            py4hw.And2(dut, 'g', a, b, o)
            py4hw.Add(dut, 'h', a, b, p)
            return [a, b], [o, p]

        def root_out(hw, dut, w_=word):
            # assign <word> = ...; a second block reads the output back
            a = hw.wire('a', 3); b = hw.wire('b', 3); o = hw.wire(w_, 3); p = hw.wire('p', 3)
            py4hw.Xor2(dut, 'g', a, b, o)
            py4hw.Sub(dut, 'h', o, b, p)
            return [a, b], [o, p]

        def child_ports(hw, dut, w_=word, depth=1):
            # non-inlined structural children (and optionally a child of theirs) with the word as input, as output, as both sides
            a = hw.wire('a', 3); b = hw.wire('b', 3)
            M = cosim.Dut.cls('Mid')
            outs = []
            for k, (ni, no) in enumerate(((w_, 'y'), ('x', w_))):
                o = hw.wire('o_%d' % k, 3)
                mid = M(dut, 'm%d' % k)
                mid.addIn(ni, a); mid.addIn('b', b); mid.addOut(no, o)
                if depth > 1:
                    t = mid.wire('t', 3)
                    inner = cosim.Dut.cls('Inner')(mid, 'in')
                    inner.addIn(no, a); inner.addOut(ni, t)     # the grandchild swaps the two names
                    py4hw.Not(inner, 'n', a, t)
                    py4hw.And2(mid, 'g', t, b, o)
                else:
                    py4hw.And2(mid, 'g', a, b, o)
                outs.append(o)
            return [a, b], outs

        def iface(hw, dut, w_=word):
            # interface elements named after the word; the ports of source and sink take the element names (empty prefix)
            a = hw.wire('a', 3)
            outs = []
            for k, fwd in enumerate((True, False)):
                bus = py4hw.Interface(dut, 'bus%d' % k)
                if fwd:
                    s2k = bus.addSourceToSink(w_, 3); k2s = bus.addSinkToSource('ack', 3)
                else:
                    s2k = bus.addSourceToSink('data', 3); k2s = bus.addSinkToSource(w_, 3)
                o = hw.wire('o_%d' % k, 3)
                src = cosim.Dut.cls('Src')(dut, 'src%d' % k)
                src.addIn('a', a); src.addOut('o', o); src.addInterfaceSource('', bus)
                snk = cosim.Dut.cls('Snk')(dut, 'snk%d' % k)
                snk.addInterfaceSink('', bus)
                py4hw.Buf(src, 'b', a, s2k)
                py4hw.Not(snk, 'n', s2k, k2s)
                py4hw.Buf(src, 'c', k2s, o)
                outs.append(o)
            return [a], outs

        def nets(hw, dut, w_=word):
            # a local net, an inlined instance, a named-module instance and a structural child called like the word
            a = hw.wire('a', 3); b = hw.wire('b', 3); o = hw.wire('o', 3); q = hw.wire('q', 3)
            t = dut.wire(w_, 3)
            py4hw.And2(dut, w_, a, b, t)
            py4hw.Add(dut, w_ + '_', t, b, o)
            mid = cosim.Dut.cls('Mid')(dut, w_ + '__')
            mid.addIn('a', a); mid.addOut('q', q)
            u = mid.wire(w_, 3)
            py4hw.Not(mid, w_, a, u)
            py4hw.Buf(mid, 'b', u, q)
            return [a, b], [o, q]
        out.append(('input port of the root', word, SHAPES[0], root_in))
        out.append(('output port of the root', word, SHAPES[1], root_out))
        out.append(('ports of a child', word, SHAPES[2], child_ports))
        out.append(('ports of a grandchild', word, SHAPES[3], lambda hw, dut, f=child_ports: f(hw, dut, depth=2)))
        out.append(('interface elements', word, SHAPES[4], iface))
        out.append(('net and instances', word, SHAPES[5], nets))
    return out
