"""C08 -- logic, selection and comparison blocks implement their truth tables (DESIGN.md section C08)."""
from . import combsweep
from .c07 import combsweep_replay

LEVEL = 'exploration'
RULE = ('every catalogue gate/selector/comparator block x arity/width/constant configuration; inputs exhaustive when the total '
        'input width <= 12 (quick) / 14 (thorough) bits, else boundary x boundary + random; a case is (block, config, input '
        'vector); non-trivial = some input non-zero; distinct by content hash')
SHARDS = {'quick': 1, 'thorough': 16}
TIMEOUT = {'quick': 600, 'thorough': 3000}
MIN_NONTRIVIAL = {'quick': 1000, 'thorough': 10000}


def run_check(run, tier, seed, shard):
    run.assume('one-hot mux/demux, Select and SelectDefault judged on select vectors in their documented domain; '
               'PriorityEncoder(inc_priority=True) gives priority to the highest index (parameter name, code comment and '
               'Test_PriorityEncoder agree); constants representable in the input width; control wires wider than one bit (2, 3, 5 bits) wherever the constructor '
               'accepts one: Mux2 looks at the LSB only (its documentation), Swap and SelectDefault are judged for control values 0 and 1 '
               '(documented), other values are outside the documented domain and not judged; BufEnable/Select/OneHotMux/OneHotDemux refuse them')
    combsweep.run_prop(run, 'C08', tier, seed, shard, 500 if tier == 'quick' else 2400)


def post_merge(run, tier, seed):
    combsweep.post_merge(run, 'C08', tier)


def replay(run, case):
    return combsweep_replay(run, case)
