"""Block recipes shared by the C11 (integrity) and C18 (schematic) monitors, for library blocks that are
not in the combinational catalogue: sequential/storage/clock blocks and the floating/fixed-point ones.

Same recipe interface as vlib.catalog: build(parent, cfg, mk) -> (ins, outs); `mk(name, width)` creates a
wire in the scope that owns the nets; the block is instantiated under `parent` with instance name 'd'.
No reference models here: C11/C18 judge structure, not values.
"""


class Recipe:
    def __init__(self, name, build, quick, thorough=None, tags=()):
        self.name = name
        self.build = build
        self.quick = list(quick)
        self.thorough = list(thorough) if thorough is not None else list(quick)
        self.tags = set(tags)

    def configs(self, tier):
        return self.thorough if tier == 'thorough' else self.quick


RECIPES = []


def add(*a, **k):
    r = Recipe(*a, **k)
    RECIPES.append(r)
    return r


def by_name(name):
    for r in RECIPES:
        if r.name == name:
            return r
    raise KeyError(name)


def P():
    import py4hw
    return py4hw


W_Q = [1, 4, 8]
W_T = [1, 2, 3, 4, 5, 8, 16, 32]


def b_reg(parent, cfg, mk):
    w, en, rs, rv = cfg
    D = mk('d_in', w); Q = mk('q', w)
    ins = [D]
    E = R = None
    if en:
        E = mk('en', 1); ins.append(E)
    if rs:
        R = mk('rst', 1); ins.append(R)
    P().Reg(parent, 'd', D, Q, enable=E, reset=R, reset_value=rv)
    return ins, [Q]


add('Reg', b_reg, [(w, en, rs, rv) for w in W_Q for en in (0, 1) for rs in (0, 1) for rv in (None, 1)][:18],
    [(w, en, rs, rv) for w in W_T for en in (0, 1) for rs in (0, 1) for rv in (None, 1)], tags=('seq', 'leaf'))


def b_latch(parent, cfg, mk):
    w = cfg[0]
    D = mk('d_in', w); Q = mk('q', w); E = mk('en', 1)
    P().Latch(parent, 'd', D, Q, E)
    return [D, E], [Q]


add('Latch', b_latch, [(w,) for w in W_Q], [(w,) for w in W_T], tags=('leaf',))


def b_treg(parent, cfg, mk):
    en, rs = cfg
    T = mk('t', 1); Q = mk('q', 1)
    ins = [T]
    E = R = None
    if en:
        E = mk('en', 1); ins.append(E)
    if rs:
        R = mk('rst', 1); ins.append(R)
    P().TReg(parent, 'd', T, Q, enable=E, reset=R)
    return ins, [Q]


add('TReg', b_treg, [(0, 0), (1, 0), (1, 1)], [(0, 0), (1, 0), (0, 1), (1, 1)], tags=('seq', 'struct'))


def b_counter(parent, cfg, mk):
    w = cfg[0]
    R = mk('rst', 1); I = mk('inc', 1); Q = mk('q', w)
    P().Counter(parent, 'd', R, I, Q)
    return [R, I], [Q]


add('Counter', b_counter, [(w,) for w in [1, 4, 8]], [(w,) for w in W_T], tags=('seq', 'struct'))


def b_modcounter(parent, cfg, mk):
    w, mod = cfg
    R = mk('rst', 1); I = mk('inc', 1); Q = mk('q', w); C = mk('co', 1)
    P().ModuloCounter(parent, 'd', mod, R, I, Q, C)
    return [R, I], [Q, C]


add('ModuloCounter', b_modcounter, [(2, 3), (4, 10), (8, 200)], [(1, 2), (2, 3), (3, 5), (4, 10), (4, 16), (8, 200), (16, 1000)], tags=('seq', 'struct'))


def b_stepup(parent, cfg, mk):
    w = cfg[0]
    R = mk('rst', 1); I = mk('inc', 1); S = mk('step', w); Q = mk('q', w)
    P().StepUpCounter(parent, 'd', R, I, S, Q)
    return [R, I, S], [Q]


add('StepUpCounter', b_stepup, [(w,) for w in [2, 4, 8]], [(w,) for w in [2, 3, 4, 8, 16, 32]], tags=('seq', 'struct'))


def b_delay(parent, cfg, mk):
    w, n, en, rs = cfg
    A = mk('a', w); R = mk('r', w)
    ins = [A]
    E = RS = None
    if en:
        E = mk('en', 1); ins.append(E)
    if rs:
        RS = mk('rst', 1); ins.append(RS)
    P().DelayLine(parent, 'd', A, E, RS, R, n)
    return ins, [R]


add('DelayLine', b_delay, [(1, 1, 1, 1), (4, 3, 1, 1), (8, 5, 0, 0), (4, 2, 1, 0)],
    [(w, n, en, rs) for w in [1, 4, 8, 32] for n in [1, 2, 3, 5, 8] for en, rs in [(1, 1), (0, 0), (1, 0), (0, 1)]], tags=('seq', 'struct'))


def b_pipe(parent, cfg, mk):
    n, w = cfg
    RS = mk('rst', 1)
    ins = [mk('i%d' % k, w) for k in range(n)]
    outs = [mk('o%d' % k, w) for k in range(n)]
    P().PipelinePhase(parent, 'd', RS, ins, outs)
    return [RS] + ins, outs


add('PipelinePhase', b_pipe, [(1, 1), (2, 4), (4, 8)], [(1, 1), (2, 4), (4, 8), (3, 32), (6, 2)], tags=('seq', 'struct'))


def _mem(cls):
    def b(parent, cfg, mk):
        aw, dw = cfg
        RA = mk('ra', aw); WA = mk('wa', aw); WE = mk('we', 1); RD = mk('rd', dw); WD = mk('wd', dw)
        getattr(P(), cls)(parent, 'd', RA, WA, WE, RD, WD)
        return [RA, WA, WE, WD], [RD]
    return b


add('SynchronousMemory', _mem('SynchronousMemory'), [(1, 1), (3, 8), (4, 4)], [(1, 1), (2, 4), (3, 8), (4, 4), (6, 16)], tags=('seq', 'leaf'))
add('AsynchronousMemory', _mem('AsynchronousMemory'), [(1, 1), (3, 8), (4, 4)], [(1, 1), (2, 4), (3, 8), (4, 4), (6, 16)], tags=('seq', 'leaf'))


def b_dpmem(parent, cfg, mk):
    aw, dw = cfg
    a = [mk(n, w_) for n, w_ in [('raa', aw), ('waa', aw), ('wea', 1)]]
    RDA = mk('rda', dw); WDA = mk('wda', dw)
    b_ = [mk(n, w_) for n, w_ in [('rab', aw), ('wab', aw), ('web', 1)]]
    RDB = mk('rdb', dw); WDB = mk('wdb', dw)
    P().DualPortSynchronousMemory(parent, 'd', a[0], a[1], a[2], RDA, WDA, b_[0], b_[1], b_[2], RDB, WDB)
    return a + [WDA] + b_ + [WDB], [RDA, RDB]


add('DualPortSynchronousMemory', b_dpmem, [(2, 4), (3, 8)], [(1, 1), (2, 4), (3, 8), (5, 16)], tags=('seq', 'leaf'))


def b_srb(parent, cfg, mk):
    w, depth = cfg
    LI = mk('li', w); RI = mk('ri', w); LO = mk('lo', w); RO = mk('ro', w); SL = mk('sl', 1); SR = mk('sr', 1)
    P().ShiftRegisterBidirectional(parent, 'd', LI, RI, LO, RO, SL, SR, depth)
    return [LI, RI, SL, SR], [LO, RO]


add('ShiftRegisterBidirectional', b_srb, [(1, 1), (4, 3), (8, 5)], [(w, dp) for w in [1, 4, 8, 16] for dp in [1, 2, 3, 5, 8]], tags=('seq', 'struct'))


def b_stack(parent, cfg, mk):
    w, depth, flags = cfg
    DI = mk('din', w); DO = mk('dout', w); PU = mk('push', 1); PO = mk('pop', 1)
    outs = [DO]
    E = F = None
    if flags:
        E = mk('empty', 1); F = mk('full', 1); outs += [E, F]
    P().Stack_ShiftRegister(parent, 'd', DI, DO, PU, PO, E, F, depth)
    return [DI, PU, PO], outs


# flags=1 declares the empty/full outputs, which the pinned tree never drives (a C03 finding): the integrity monitor
# uses that configuration as a library-made "must raise" witness, the schematic monitor excludes it (undriven inside)
add('Stack_ShiftRegister', b_stack, [(1, 2, 0), (4, 3, 0), (8, 5, 0), (4, 3, 1)],
    [(w, dp, 0) for w in [1, 4, 8, 16] for dp in [1, 2, 3, 5, 8]] + [(4, 3, 1), (8, 2, 1)], tags=('seq', 'struct'))


def b_edge(parent, cfg, mk):
    A = mk('a', 1); R = mk('r', 1)
    P().EdgeDetector(parent, 'd', A, R, cfg[0])
    return [A], [R]


add('EdgeDetector', b_edge, [('pos',), ('neg',), ('both',)], tags=('seq', 'struct'))


def b_clkdiv(parent, cfg, mk):
    fin, fout, rs = cfg
    CK = mk('clkout', 1)
    ins = []
    R = None
    if rs:
        R = mk('rst', 1); ins.append(R)
    P().ClockDivider(parent, 'd', fin, fout, CK, reset=R)
    return ins, [CK]


add('ClockDivider', b_clkdiv, [(100, 25, 0), (100, 10, 1), (1000, 1, 1)], [(100, 25, 0), (100, 10, 1), (1000, 1, 1), (50, 5, 0), (64, 1, 1), (12, 2, 0)], tags=('seq', 'struct'))


def b_subbi(parent, cfg, mk):
    w = cfg[0]
    A = mk('a', w); B = mk('b', w); R = mk('r', w); BI = mk('bi', 1)
    P().SubBorrowIn(parent, 'd', A, B, R, BI)
    return [A, B, BI], [R]


add('SubBorrowIn', b_subbi, [(1,), (4,), (8,)], [(w,) for w in W_T], tags=())


def _fp2(cls):
    def b(parent, cfg, mk):
        A = mk('a', 32); B = mk('b', 32); R = mk('r', 32)
        getattr(P(), cls)(parent, 'd', A, B, R)
        return [A, B], [R]
    return b


add('FPAdder_SP', _fp2('FPAdder_SP'), [()], tags=('fp', 'struct'))
add('FPMult_SP', _fp2('FPMult_SP'), [()], tags=('fp', 'struct'))


def b_fptoint(parent, cfg, mk):
    A = mk('a', 32); R = mk('r', 32); PL = mk('p_lost', 1); DN = mk('denorm', 1); IV = mk('invalid', 1)
    P().FPtoInt_SP(parent, 'd', A, R, PL, DN, IV)
    return [A], [R, PL, DN, IV]


add('FPtoInt_SP', b_fptoint, [()], tags=('fp', 'struct'))


def b_inttofp(parent, cfg, mk):
    A = mk('a', 32); R = mk('r', 32); PL = mk('p_lost', 1)
    P().InttoFP_SP(parent, 'd', A, R, PL)
    return [A], [R, PL]


add('InttoFP_SP', b_inttofp, [()], tags=('fp', 'struct'))


def b_fpcmp(parent, cfg, mk):
    A = mk('a', 32); B = mk('b', 32)
    o = [mk(n, 1) for n in ('gt', 'eq', 'lt')]
    P().FPComparator_SP(parent, 'd', A, B, o[0], o[1], o[2], absolute=bool(cfg[0]))
    return [A, B], o


add('FPComparator_SP', b_fpcmp, [(0,), (1,)], tags=('fp', 'struct'))


def _fx2(cls):
    def b(parent, cfg, mk):
        (ai, af), (bi, bf), (ri, rf) = cfg
        A = mk('a', 1 + ai + af); B = mk('b', 1 + bi + bf); R = mk('r', 1 + ri + rf)
        getattr(P(), cls)(parent, 'd', A, (1, ai, af), B, (1, bi, bf), R, (1, ri, rf))
        return [A, B], [R]
    return b


# add/sub only support one common format; the multiplier takes three formats
_FX_SAME = [((1, 1), (1, 1), (1, 1)), ((3, 2), (3, 2), (3, 2)), ((2, 2), (2, 2), (2, 2))]
_FX_Q = [((1, 1), (1, 1), (2, 1)), ((3, 2), (2, 3), (4, 3)), ((2, 2), (2, 2), (2, 2))]
add('FixedPointAdd', _fx2('FixedPointAdd'), _FX_SAME, tags=('fxp', 'struct'))
add('FixedPointSub', _fx2('FixedPointSub'), _FX_SAME, tags=('fxp', 'struct'))
add('FixedPointMult', _fx2('FixedPointMult'), _FX_Q, tags=('fxp', 'struct'))
