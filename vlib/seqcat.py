"""E2 block catalogue, sequential part (consumed by C09, C10 and by C01/C05 as a block source).

One entry per sequential library block.  Pure data + pure-Python reference machines: importing this
module has no side effects and does not import py4hw (only `build` touches py4hw, lazily).

    e.ports(cfg)             -> (ins, outs): ordered dicts  port name -> width   (nets of the block)
    e.build(parent, cfg, mk) -> (ins, outs): dicts name -> wire; `mk(name, width)` creates the nets in the
                                scope that owns them, the block is instantiated under `parent` as child `e.inst`
    e.configs(tier)          -> legal configurations (tuples) for the random-history monitor
    e.bfs_configs(tier)      -> small configurations (<= 2**12 reachable states) for bounded exhaustive walks
    e.init(cfg)              -> reference state at power-up (hashable)
    e.nxt(cfg, state, ins)   -> state after one edge with these pre-edge inputs
    e.out(cfg, state, ins)   -> dict name -> expected output value for this state and these *current* inputs
                                (None = not specified by the documentation, not judged)
    e.step(cfg, state, ins)  -> (state', out(state', ins))   outputs after the edge with the inputs held
    e.pre                    -> None for Moore blocks; for blocks whose outputs also depend on the current inputs
                                pre(cfg, state, ins) = out(state, ins), compared after poke + propagateAll
    e.domain(cfg, ins)       -> ins moved into the documented input domain (push+pop, shift-left+shift-right,
                                two ports writing one address are undocumented and are never applied)
    e.controls(cfg)          -> names of the control inputs (duty-cycle driven), the rest are data inputs

The references are written from the docstrings and the C09 statement: a register loads its reset value when
reset is 1, else its input when enabled, else holds; every other block is a composition of that rule.
Power-up: all nets are 0, register content is the reset value; outputs are specified from the first edge on.
"""


def P():
    import py4hw
    return py4hw


def _m(v, w):
    return v & ((1 << w) - 1)


class SeqEntry:
    inst = 'dut'

    def __init__(self, name, ports, make, init, nxt, out, quick, thorough=None, bfs_quick=(), bfs_thorough=None,
                 domain=None, mealy=False, controls=None, tags=()):
        self.name = name
        self.ports = ports
        self.make = make
        self.init = init
        self.nxt = nxt
        self.out = out
        self.quick = list(quick)
        self.thorough = list(thorough) if thorough is not None else list(quick)
        self.bfs_quick = list(bfs_quick)
        self.bfs_thorough = list(bfs_thorough) if bfs_thorough is not None else list(bfs_quick)
        self.domain = domain
        self.mealy = mealy
        self.pre = (lambda cfg, state, ins: out(cfg, state, ins)) if mealy else None
        self._controls = controls
        self.tags = set(tags)

    def configs(self, tier):
        return self.thorough if tier == 'thorough' else self.quick

    def bfs_configs(self, tier):
        return self.bfs_thorough if tier == 'thorough' else self.bfs_quick

    def build(self, parent, cfg, mk, inst=None):
        pi, po = self.ports(cfg)
        ins = {k: mk(k, w) for k, w in pi.items()}
        outs = {k: mk(k, w) for k, w in po.items()}
        self.make(parent, inst or self.inst, cfg, ins, outs)
        return ins, outs

    def step(self, cfg, state, ins):
        s2 = self.nxt(cfg, state, ins)
        return s2, self.out(cfg, s2, ins)

    def controls(self, cfg):
        if self._controls is not None:
            return list(self._controls(cfg))
        return [k for k, w in self.ports(cfg)[0].items() if w == 1]


ENTRIES = []


def add(*a, **k):
    e = SeqEntry(*a, **k)
    ENTRIES.append(e)
    return e


def by_name(name):
    for e in ENTRIES:
        if e.name == name:
            return e
    raise KeyError(name)


def cfg_from_json(x):
    """configs are tuples (possibly nested) of ints / None / bool / str; JSON turns tuples into lists."""
    if isinstance(x, list):
        return tuple(cfg_from_json(y) for y in x)
    if isinstance(x, str) and x.startswith(('0x', '-0x')):
        return int(x, 16)
    return x


# --------------------------------------------------------------------------- Reg
# cfg = (w, has_enable, has_reset, reset_value or None)

def _reg_ports(c):
    w, he, hr, rv = c
    i = {'d': w}
    if he:
        i['e'] = 1
    if hr:
        i['r'] = 1
    return i, {'q': w}


def _reg_make(parent, inst, c, i, o):
    w, he, hr, rv = c
    kw = {}
    if rv is not None:
        kw['reset_value'] = rv
    P().Reg(parent, inst, i['d'], o['q'], enable=i.get('e'), reset=i.get('r'), **kw)


def _reg_init(c):
    return c[3] or 0


def _reg_nxt(c, s, v):
    w, he, hr, rv = c
    if hr and v['r'] == 1:
        return rv or 0
    if (not he) or v['e'] != 0:
        return v['d']
    return s


def _reg_out(c, s, v):
    return {'q': _m(s, c[0])}


def _reg_cfgs(ws, rvs):
    out = []
    for w in ws:
        for he in (0, 1):
            for hr in (0, 1):
                for rv in rvs(w):
                    if rv is not None and rv != 0 and not hr and (he or w > 2):
                        # a reset value without a reset port is only visible through the first edges; keep a few
                        continue
                    out.append((w, he, hr, rv))
    return out


_REG_Q = _reg_cfgs([1, 2, 3, 8, 32], lambda w: sorted({None, 0, 1, (1 << w) - 1, (1 << (w - 1))} - {None}) + [None])
_REG_T = _reg_cfgs([1, 2, 3, 4, 5, 7, 8, 9, 16, 31, 32, 33, 64],
                   lambda w: sorted({0, 1, (1 << w) - 1, (1 << w) - 2, 1 << (w - 1), 0x5555555555555555 & ((1 << w) - 1)}) + [None])
_REG_B = [(w, he, hr, rv) for w in (1, 2) for he in (0, 1) for hr in (0, 1) for rv in (None, 0, 1, (1 << w) - 1)]

_REG_B2 = _REG_B + [(3, 1, 1, 5), (3, 0, 1, 7), (4, 1, 1, 9)]
add('Reg', _reg_ports, _reg_make, _reg_init, _reg_nxt, _reg_out, _REG_Q, _REG_T, _REG_B2,
    _REG_B2 + [(5, 1, 1, 21), (6, 1, 1, None), (7, 1, 1, 127), (8, 1, 0, 1)])


# --------------------------------------------------------------------------- TReg   cfg = (has_enable, has_reset)

def _treg_ports(c):
    i = {'t': 1}
    if c[0]:
        i['e'] = 1
    if c[1]:
        i['r'] = 1
    return i, {'q': 1}


def _treg_make(parent, inst, c, i, o):
    P().TReg(parent, inst, i['t'], o['q'], enable=i.get('e'), reset=i.get('r'))


def _treg_nxt(c, s, v):
    if c[1] and v['r']:
        return 0
    if (not c[0]) or v['e']:
        return s ^ 1 if v['t'] else s
    return s


_TREG = [(a, b) for a in (0, 1) for b in (0, 1)]
add('TReg', _treg_ports, _treg_make, lambda c: 0, _treg_nxt, lambda c, s, v: {'q': s}, _TREG, _TREG, _TREG)


# --------------------------------------------------------------------------- Counter   cfg = (w, has_reset, has_inc)
# an absent inc port means "always increment", an absent reset port "never reset" (constructor defaults)

def _cnt_ports(c):
    i = {}
    if c[1]:
        i['reset'] = 1
    if c[2]:
        i['inc'] = 1
    return i, {'q': c[0]}


def _cnt_make(parent, inst, c, i, o):
    P().Counter(parent, inst, i.get('reset'), i.get('inc'), o['q'])


def _cnt_nxt(c, s, v):
    if c[1] and v['reset']:
        return 0
    if (not c[2]) or v['inc']:
        return (s + 1) % (1 << c[0])
    return s


_CNT_Q = [(w, 1, 1) for w in (1, 2, 3, 4, 8)] + [(2, 0, 1), (3, 1, 0), (2, 0, 0), (16, 1, 1)]
_CNT_T = [(w, r, i) for w in (1, 2, 3, 4, 5, 7, 8, 9, 16, 32, 33, 64) for r in (0, 1) for i in (0, 1)]
_CNT_B = [(w, r, i) for w in (1, 2, 3) for r in (0, 1) for i in (0, 1)]
add('Counter', _cnt_ports, _cnt_make, lambda c: 0, _cnt_nxt, lambda c, s, v: {'q': s}, _CNT_Q, _CNT_T, _CNT_B + [(5, 1, 1), (8, 1, 1)],
    _CNT_B + [(5, 1, 1), (8, 1, 1), (10, 1, 1), (12, 1, 1), (12, 0, 1), (11, 1, 0)])


# --------------------------------------------------------------------------- ModuloCounter   cfg = (w, mod), 1 <= mod <= 2**w

def _mod_ports(c):
    return {'reset': 1, 'inc': 1}, {'q': c[0], 'carryout': 1}


def _mod_make(parent, inst, c, i, o):
    P().ModuloCounter(parent, inst, c[1], i['reset'], i['inc'], o['q'], o['carryout'])


def _mod_nxt(c, s, v):
    if v['reset']:
        return 0
    if v['inc']:
        return 0 if s == c[1] - 1 else s + 1
    return s


def _mod_out(c, s, v):
    return {'q': s, 'carryout': int(s == c[1] - 1)}


_MOD_Q = [(1, 1), (1, 2), (2, 1), (2, 2), (2, 3), (2, 4), (3, 5), (3, 7), (3, 8), (4, 10), (4, 16), (8, 200), (8, 256), (5, 1)]
_MOD_T = [(w, m) for w in (1, 2, 3, 4, 5) for m in range(1, (1 << w) + 1)] + \
         [(8, m) for m in (1, 2, 100, 127, 128, 129, 255, 256)] + [(16, 1000), (16, 65536), (32, 3), (32, 70000)]
_MOD_B = [(w, m) for w in (1, 2, 3) for m in range(1, (1 << w) + 1)]
# carryout is a function of the count only, but it is declared as a "current input" output in the design, so
# it is compared at both points of the cycle
add('ModuloCounter', _mod_ports, _mod_make, lambda c: 0, _mod_nxt, _mod_out, _MOD_Q, _MOD_T,
    _MOD_B + [(4, m) for m in (1, 9, 15, 16)],
    _MOD_B + [(4, m) for m in range(1, 17)] + [(5, m) for m in range(1, 33)] + [(8, 200), (8, 256), (12, 4096), (12, 3000)], mealy=True)


# --------------------------------------------------------------------------- StepUpCounter   cfg = (w, step_w, has_reset)

def _suc_ports(c):
    i = {}
    if c[2]:
        i['reset'] = 1
    i['inc'] = 1
    i['step'] = c[1]
    return i, {'q': c[0]}


def _suc_make(parent, inst, c, i, o):
    P().StepUpCounter(parent, inst, i.get('reset'), i['inc'], i['step'], o['q'])


def _suc_nxt(c, s, v):
    if c[2] and v['reset']:
        return 0
    if v['inc']:
        return (s + v['step']) % (1 << c[0])
    return s


_SUC_Q = [(1, 1, 1), (2, 2, 1), (3, 3, 1), (3, 2, 1), (4, 4, 1), (8, 8, 1), (8, 3, 1), (3, 3, 0), (16, 16, 1)]
_SUC_T = [(w, sw, r) for w in (1, 2, 3, 4, 5, 8, 9, 16, 32, 64) for sw in sorted({1, max(1, w // 2), w}) for r in (0, 1)]
_SUC_B = [(1, 1, 1), (2, 2, 1), (2, 1, 1), (2, 2, 0), (3, 2, 1)]
add('StepUpCounter', _suc_ports, _suc_make, lambda c: 0, _suc_nxt, lambda c, s, v: {'q': s}, _SUC_Q, _SUC_T,
    _SUC_B + [(3, 3, 1), (4, 3, 1)], _SUC_B + [(3, 3, 1), (4, 3, 1), (4, 4, 1), (5, 5, 1), (6, 4, 0), (8, 2, 1)])


# --------------------------------------------------------------------------- DelayLine   cfg = (w, delay, has_en, has_reset)

def _dl_ports(c):
    i = {'a': c[0]}
    if c[2]:
        i['en'] = 1
    if c[3]:
        i['reset'] = 1
    return i, {'r': c[0]}


def _dl_make(parent, inst, c, i, o):
    P().DelayLine(parent, inst, i['a'], i.get('en'), i.get('reset'), o['r'], c[1])


def _dl_nxt(c, s, v):
    w, delay, he, hr = c
    if delay == 0:
        return s
    if hr and v['reset']:
        return (0,) * delay
    if (not he) or v['en']:
        return (v['a'],) + s[:-1]
    return s


def _dl_out(c, s, v):
    return {'r': v['a'] if c[1] == 0 else s[-1]}


_DL_Q = [(w, d, 1, 1) for w in (1, 3) for d in range(0, 6)] + [(2, 2, 0, 0), (2, 1, 1, 0), (2, 3, 0, 1), (8, 4, 1, 1), (4, 0, 0, 0)]
_DL_T = [(w, d, he, hr) for w in (1, 2, 3, 8, 32) for d in range(0, 6) for he in (0, 1) for hr in (0, 1)]
_DL_B = [(1, d, 1, 1) for d in range(0, 4)] + [(2, d, 1, 1) for d in range(0, 3)] + [(1, 2, 0, 0), (1, 2, 0, 1), (1, 2, 1, 0)]
add('DelayLine', _dl_ports, _dl_make, lambda c: (0,) * c[1], _dl_nxt, _dl_out, _DL_Q, _DL_T,
    _DL_B + [(1, 4, 1, 1), (1, 5, 1, 1), (2, 3, 1, 1), (3, 2, 1, 1)],
    _DL_B + [(1, 4, 1, 1), (1, 5, 1, 1), (2, 3, 1, 1), (3, 2, 1, 1), (2, 4, 1, 1), (2, 5, 1, 1), (3, 3, 1, 1), (3, 4, 1, 1), (4, 3, 0, 1),
             (1, 5, 0, 0), (2, 5, 1, 0), (6, 2, 1, 1)], mealy=True)


# --------------------------------------------------------------------------- PipelinePhase   cfg = (widths tuple,)

def _pp_ports(c):
    i = {'reset': 1}
    o = {}
    for k, w in enumerate(c[0]):
        i['in%d' % k] = w
        o['out%d' % k] = w
    return i, o


def _pp_make(parent, inst, c, i, o):
    n = len(c[0])
    P().PipelinePhase(parent, inst, i['reset'], [i['in%d' % k] for k in range(n)], [o['out%d' % k] for k in range(n)])


def _pp_nxt(c, s, v):
    if v['reset']:
        return (0,) * len(c[0])
    return tuple(v['in%d' % k] for k in range(len(c[0])))


_PP_Q = [((1,),), ((2, 1),), ((3, 1, 8),), ((1, 1, 1, 1),), ((32, 5),)]
_PP_T = _PP_Q + [((64,),), ((1, 2, 3, 4, 5),), ((8, 8, 8),), ((33, 1),)]
add('PipelinePhase', _pp_ports, _pp_make, lambda c: (0,) * len(c[0]), _pp_nxt,
    lambda c, s, v: {'out%d' % k: x for k, x in enumerate(s)}, _PP_Q, _PP_T, [((1,),), ((2, 1),), ((1, 1, 1),)],
    [((1,),), ((2, 1),), ((1, 1, 1),), ((3, 2),), ((2, 2, 2),), ((1, 1, 1, 1, 1),), ((8,),)])


# --------------------------------------------------------------------------- ShiftRegisterBidirectional   cfg = (w, depth)
# cells numbered left to right.  shift_right: left_in -> [0] -> [1] -> ... ; shift_left: ... <- [depth-1] <- right_in

def _sr_ports(c):
    w = c[0]
    return {'left_in': w, 'right_in': w, 'shift_left': 1, 'shift_right': 1}, {'left_out': w, 'right_out': w}


def _sr_make(parent, inst, c, i, o):
    P().ShiftRegisterBidirectional(parent, inst, i['left_in'], i['right_in'], o['left_out'], o['right_out'],
                                   i['shift_left'], i['shift_right'], c[1])


def _sr_domain(c, v):
    if v['shift_left'] and v['shift_right']:
        v = dict(v)
        # undocumented combination: never applied; which of the two survives depends on the data so both occur
        if (v['left_in'] ^ v['right_in']) & 1:
            v['shift_left'] = 0
        else:
            v['shift_right'] = 0
    return v


def _sr_nxt(c, s, v):
    if v['shift_left']:
        return s[1:] + (v['right_in'],)
    if v['shift_right']:
        return (v['left_in'],) + s[:-1]
    return s


_SR_Q = [(1, 1), (1, 2), (1, 3), (2, 2), (3, 1), (3, 4), (8, 5), (4, 8)]
_SR_T = [(w, d) for w in (1, 2, 3, 8, 32) for d in (1, 2, 3, 4, 5, 8, 16)]
_SR_B = [(1, 1), (1, 2), (1, 3), (2, 1), (2, 2)]
add('ShiftRegisterBidirectional', _sr_ports, _sr_make, lambda c: (0,) * c[1], _sr_nxt,
    lambda c, s, v: {'left_out': s[0], 'right_out': s[-1]}, _SR_Q, _SR_T, _SR_B + [(1, 4), (1, 5), (2, 3), (3, 2)],
    _SR_B + [(1, 4), (1, 5), (2, 3), (3, 2), (1, 8), (1, 12), (2, 4), (2, 5), (2, 6), (3, 3), (4, 2), (4, 3), (6, 1)],
    domain=_sr_domain)


# --------------------------------------------------------------------------- Stack_ShiftRegister   cfg = (w, depth)
# last-in first-out within its depth: push stores din on top (the oldest element falls out when full),
# pop moves the top element to dout and removes it.  What a pop returns once more elements were popped than are
# stored is not documented: such cells are None in the reference and the popped value is then not judged.
# state = (cells top..bottom, dout)

def _st_ports(c):
    return {'din': c[0], 'push': 1, 'pop': 1}, {'dout': c[0]}


def _st_make(parent, inst, c, i, o):
    P().Stack_ShiftRegister(parent, inst, i['din'], o['dout'], i['push'], i['pop'], None, None, c[1])


def _st_domain(c, v):
    if v['push'] and v['pop']:
        v = dict(v)
        if v['din'] & 1:
            v['pop'] = 0
        else:
            v['push'] = 0
    return v


def _st_nxt(c, s, v):
    cells, dout = s
    if v['pop']:
        return cells[1:] + (None,), cells[0]
    if v['push']:
        return (v['din'],) + cells[:-1], dout
    return s


_ST_Q = [(1, 1), (1, 2), (2, 2), (3, 3), (3, 1), (8, 4), (4, 8)]
_ST_T = [(w, d) for w in (1, 2, 3, 8, 32) for d in (1, 2, 3, 4, 5, 8, 16)]
_ST_B = [(1, 1), (1, 2), (1, 3), (2, 1), (2, 2)]
# dout powers up 0 (a register with the default reset value); the cells are "empty"
add('Stack_ShiftRegister', _st_ports, _st_make, lambda c: ((None,) * c[1], 0), _st_nxt,
    lambda c, s, v: {'dout': s[1]}, _ST_Q, _ST_T, _ST_B + [(1, 4), (2, 3)],
    _ST_B + [(1, 4), (2, 3), (1, 5), (1, 6), (1, 8), (2, 4), (3, 2), (3, 3), (4, 2), (5, 1)], domain=_st_domain)


# --------------------------------------------------------------------------- EdgeDetector   cfg = (direction,)
# state = the input one edge ago

def _ed_make(parent, inst, c, i, o):
    P().EdgeDetector(parent, inst, i['a'], o['r'], c[0])


def _ed_out(c, s, v):
    a = v['a']
    if c[0] == 'pos':
        return {'r': int(a == 1 and s == 0)}
    if c[0] == 'neg':
        return {'r': int(a == 0 and s == 1)}
    return {'r': int(a != s)}


_ED = [('pos',), ('neg',), ('both',)]
add('EdgeDetector', lambda c: ({'a': 1}, {'r': 1}), _ed_make, lambda c: 0, lambda c, s, v: v['a'], _ed_out, _ED, _ED, _ED,
    mealy=True)


# --------------------------------------------------------------------------- ClockDivider   cfg = (freq_in, freq_out, has_reset)
# output toggles every n = floor(freq_in / (2 freq_out)) edges (the constructor prints the real frequency when the
# ratio is not exact); reset clears the phase and the output.  state = (edges since last toggle, clkout)

def _cd_exact(x):
    """the frequency the user wrote: an int, or the decimal a float prints as (0.1 means one tenth, not the binary float)"""
    from fractions import Fraction
    return Fraction(x) if isinstance(x, int) else Fraction(repr(x))


def _cd_ratio(c):
    return _cd_exact(c[0]) / (2 * _cd_exact(c[1]))


def _cd_n(c):
    # exact rational arithmetic, never the float expression of the constructor
    r = _cd_ratio(c)
    return r.numerator // r.denominator


def _cd_legal(c):
    """ratio >= 1 and either whole or clearly fractional: a ratio within 1e-6 of an integer without being one would make the
    expected modulus depend on rounding, which the documentation does not settle"""
    from fractions import Fraction
    r = _cd_ratio(c)
    if r < 1:
        return False
    d = abs(r - round(r))
    if not (d == 0 or d > 1e-6):
        return False
    # the documented formula evaluated on the binary doubles the caller really passes, correctly rounded (IEEE division),
    # must land on the same integer part as the exact decimal ratio; otherwise (0.6 / (2 * 0.1) is 2.9999999999999996)
    # the modulus is a matter of float rounding the documentation does not settle and the configuration is left out
    qd = float(Fraction(float(c[0])) / (2 * Fraction(float(c[1]))))
    return int(qd) == r.numerator // r.denominator


def _cd_ports(c):
    return ({'reset': 1} if c[2] else {}), {'clkout': 1}


def _cd_make(parent, inst, c, i, o):
    P().ClockDivider(parent, inst, c[0], c[1], o['clkout'], reset=i.get('reset'))


def _cd_nxt(c, s, v):
    cnt, clk = s
    if c[2] and v['reset']:
        return (0, 0)
    if cnt == _cd_n(c) - 1:
        return (0, clk ^ 1)
    return (cnt + 1, clk)


_CD_Q = [(2, 1, 1), (4, 1, 1), (6, 1, 1), (10, 1, 1), (16, 1, 0), (5, 1, 1), (50, 5, 1), (7, 1, 0), (200, 1, 1)]
_CD_T = [(2 * n, 1, r) for n in (1, 2, 3, 4, 5, 7, 8, 9, 16, 17, 100) for r in (0, 1)] + [(5, 1, 1), (9, 2, 1), (50, 5, 1), (115200 * 8, 115200, 1), (7, 1, 0)]
_CD_B = [(2, 1, 1), (4, 1, 1), (6, 1, 1), (8, 1, 1), (5, 1, 1), (6, 1, 0)]
# frequencies given as floats, with decimals that have no exact binary representation; whole and fractional true ratios
_CD_FQ = [(50, 0.1, 1), (1, 0.1, 1), (1.0, 0.25, 0), (3, 0.3, 1), (0.6, 0.1, 1), (1, 0.2, 1), (0.7, 0.1, 0), (1, 1e-2, 1), (2.4, 0.3, 1),
          (50e6, 2.5e6, 1), (1e3, 62.5, 0), (4.2, 0.7, 1), (0.9, 0.15, 1), (10.0, 1.0, 1), (33, 1.1, 1)]
_CD_FT = _CD_FQ + [(fi, fo, r) for fi in (1, 3, 7, 0.9, 2.1, 12.6, 100) for fo in (0.1, 0.2, 0.3, 0.7, 1e-3, 0.35, 0.05, 1.5) for r in (0, 1)] + \
    [(50e6, 115200 * 4.0, 1), (27e6, 2.25e6, 1), (1e6, 1e3 / 3, 1)]
_CD_Q = [c for c in _CD_Q + _CD_FQ if _cd_legal(c)]
_CD_T = [c for c in _CD_T + _CD_FT if _cd_legal(c) and _cd_n(c) <= 5000]
add('ClockDivider', _cd_ports, _cd_make, lambda c: (0, 0), _cd_nxt, lambda c, s, v: {'clkout': s[1]}, _CD_Q, _CD_T,
    _CD_B + [(20, 1, 1), (64, 1, 1), (1, 0.1, 1), (3, 0.3, 0), (0.9, 0.15, 1)],
    _CD_B + [(20, 1, 1), (64, 1, 1), (10, 1, 0), (9, 2, 1), (1000, 1, 1), (4000, 1, 0), (1, 0.1, 1), (3, 0.3, 0), (0.9, 0.15, 1), (50, 0.1, 1), (2.4, 0.3, 1)])


# --------------------------------------------------------------------------- AutoReset   cfg = ()
# power-up reset pulse: 1 after the first two edges, 0 from the third edge on, for ever.  state = edges seen (saturating)

def _ar_make(parent, inst, c, i, o):
    P().AutoReset(parent, inst, o['reset'])


add('AutoReset', lambda c: ({}, {'reset': 1}), _ar_make, lambda c: 0, lambda c, s, v: min(s + 1, 3),
    lambda c, s, v: {'reset': int(1 <= s <= 2)}, [()], [()], [()])


# --------------------------------------------------------------------------- Sequence   cfg = (w, values, once)
# after edge k the output is values[k-1]; repeats cyclically, or holds the last value when once=True

def _sq_make(parent, inst, c, i, o):
    P().Sequence(parent, inst, list(c[1]), o['r'], once=bool(c[2]))


def _sq_out(c, s, v):
    w, vals, once = c
    if s == 0:
        return {'r': 0}
    k = s - 1
    return {'r': _m(vals[min(k, len(vals) - 1)] if once else vals[k % len(vals)], w)}


def _sq_nxt(c, s, v):
    w, vals, once = c
    n = len(vals)
    # keep the state space finite: cyclic sequences fold into 1..n, one-shot ones saturate at n
    if once:
        return min(s + 1, n)
    return s + 1 if s < n else 1


_SQ_Q = [(1, (1,), 0), (1, (0, 1), 0), (3, (1, 2, 3, 4, 5), 0), (3, (1, 2, 3), 1), (8, (255, 0, 7), 0), (4, (9,), 1), (2, (3, 2, 1, 0, 1), 1)]
_SQ_T = _SQ_Q + [(16, tuple(range(0, 40000, 1111)), 0), (1, (1, 1, 0, 1, 0, 0, 0, 1), 0), (32, (0xdeadbeef, 1), 1), (64, ((1 << 64) - 1, 0, 1 << 63), 0)]
add('Sequence', lambda c: ({}, {'r': c[0]}), _sq_make, lambda c: 0, _sq_nxt, _sq_out, _SQ_Q, _SQ_T, _SQ_Q, _SQ_T)


# --------------------------------------------------------------------------- SynchronousMemory   cfg = (aw, dw)
# registered read: after the edge readdata = content of the read address *before* this edge's write.
# state = (cells, readdata register)

def _sm_ports(c):
    aw, dw = c
    return {'read_address': aw, 'write_address': aw, 'write': 1, 'writedata': dw}, {'readdata': dw}


def _sm_make(parent, inst, c, i, o):
    P().SynchronousMemory(parent, inst, i['read_address'], i['write_address'], i['write'], o['readdata'], i['writedata'])


def _sm_nxt(c, s, v):
    mem, rd = s
    rd = mem[v['read_address']]
    if v['write']:
        mem = mem[:v['write_address']] + (v['writedata'],) + mem[v['write_address'] + 1:]
    return mem, rd


_SM_Q = [(1, 1), (1, 2), (2, 1), (2, 4), (3, 8), (4, 3), (5, 32), (10, 8)]
_SM_T = [(a, d) for a in (1, 2, 3, 4, 6, 10) for d in (1, 2, 3, 8, 32, 64)]
add('SynchronousMemory', _sm_ports, _sm_make, lambda c: ((0,) * (1 << c[0]), 0), _sm_nxt,
    lambda c, s, v: {'readdata': s[1]}, _SM_Q, _SM_T, [(1, 1), (1, 2), (2, 1), (1, 3)], [(1, 1), (1, 2), (2, 1), (1, 3), (2, 2), (1, 4), (3, 1)],
    controls=lambda c: ['write'], tags=('memory',))


# --------------------------------------------------------------------------- DualPortSynchronousMemory   cfg = (aw, dw)
# as above on both ports: each read returns the pre-edge content, also when either port writes that address in the
# same cycle.  Both ports writing the same address in one cycle is not documented -> never applied (domain).

def _dp_widths(c):
    """cfg = (aw, dw): all four data nets dw bits;  cfg = (aw, rd_a, wd_a, rd_b, wd_b): every data net has its own width
    (the constructor only constrains the address widths).  A cell keeps the value that was written; a read port shows it
    reduced to the width of its readdata net."""
    if len(c) == 2:
        return c[0], {'readdata_a': c[1], 'writedata_a': c[1], 'readdata_b': c[1], 'writedata_b': c[1]}
    aw, ra, wa, rb, wb = c
    return aw, {'readdata_a': ra, 'writedata_a': wa, 'readdata_b': rb, 'writedata_b': wb}


def _dp_ports(c):
    aw, dw = _dp_widths(c)
    i = {}
    for p in 'ab':
        i['read_address_' + p] = aw
        i['write_address_' + p] = aw
        i['write_' + p] = 1
        i['writedata_' + p] = dw['writedata_' + p]
    return i, {'readdata_a': dw['readdata_a'], 'readdata_b': dw['readdata_b']}


def _dp_make(parent, inst, c, i, o):
    P().DualPortSynchronousMemory(parent, inst,
                                  i['read_address_a'], i['write_address_a'], i['write_a'], o['readdata_a'], i['writedata_a'],
                                  i['read_address_b'], i['write_address_b'], i['write_b'], o['readdata_b'], i['writedata_b'])


def _dp_domain(c, v):
    if v['write_a'] and v['write_b'] and v['write_address_a'] == v['write_address_b']:
        v = dict(v)
        if v['writedata_a'] & 1:
            v['write_b'] = 0
        else:
            v['write_a'] = 0
    return v


def _dp_nxt(c, s, v):
    mem, ra, rb = s
    ra = mem[v['read_address_a']]
    rb = mem[v['read_address_b']]
    m = list(mem)
    if v['write_a']:
        m[v['write_address_a']] = v['writedata_a']
    if v['write_b']:
        m[v['write_address_b']] = v['writedata_b']
    return tuple(m), ra, rb


# asymmetric ports: port B wider than port A, narrower than A, write nets wider / narrower than the read nets
_DP_ASYM_Q = [(1, 1, 1, 3, 3), (2, 4, 4, 8, 8), (2, 8, 8, 4, 4), (3, 8, 16, 16, 8), (2, 1, 1, 32, 32), (4, 32, 32, 64, 64)]
_DP_ASYM_T = _DP_ASYM_Q + [(a, ra, wa, rb, wb) for a in (1, 3) for ra in (1, 4, 16) for wa in (1, 4, 16) for rb in (2, 8, 33) for wb in (2, 8, 33)]
_DP_Q = [(1, 1), (1, 2), (2, 1), (2, 4), (3, 8), (5, 32), (10, 8)] + _DP_ASYM_Q
_DP_T = [(a, d) for a in (1, 2, 3, 4, 6, 10) for d in (1, 2, 3, 8, 32, 64)] + _DP_ASYM_T
add('DualPortSynchronousMemory', _dp_ports, _dp_make, lambda c: ((0,) * (1 << c[0]), 0, 0), _dp_nxt,
    lambda c, s, v: {'readdata_a': s[1], 'readdata_b': s[2]}, _DP_Q, _DP_T, [(1, 1), (1, 1, 1, 2, 2)], [(1, 1), (1, 2), (2, 1), (1, 1, 1, 2, 2), (1, 2, 2, 1, 1), (1, 1, 2, 2, 1)],
    domain=_dp_domain, controls=lambda c: ['write_a', 'write_b'], tags=('memory',))


# --------------------------------------------------------------------------- generic helpers for consumers

def state_changes(e, cfg, states):
    n = 0
    for a, b in zip(states, states[1:]):
        if a != b:
            n += 1
    return n


def clockable_leaves(obj):
    """all clockable leaves below obj, by walking the children dicts (not py4hw's own helper)"""
    kids = list(getattr(obj, 'children', {}).values())
    if not kids:
        return [obj] if callable(getattr(obj, 'clock', None)) else []
    out = []
    for k in kids:
        out += clockable_leaves(k)
    return out


# --------------------------------------------------------------------------- size-parameter families (C09 'size' jobs)
# every block with a size parameter (stages, depth, address width, modulus, divide ratio, sequence length) also at sizes
# around and beyond the small values above (powers of two -1/+0/+1, a few large ones), with every combination of its optional
# ports.  Separate from configs(): these are driven with size-scaled histories (fill >= size, stall with reset pulses while
# disabled, drain >= size), not with the fixed-length random ones, and they are not part of the C10 workload.

_NEAR_POW2 = (15, 16, 17, 31, 32, 33, 63, 64, 65)


def _size_family(tier):
    q = tier != 'thorough'
    out = []
    dl = (31, 32, 33, 40, 64, 100) if q else (0, 1, 2, 7, 8, 9, 15, 16, 17, 31, 32, 33, 34, 40, 63, 64, 65, 100, 128, 200)
    for d in dl:
        for he in (0, 1):
            for hr in (0, 1):
                if q and (he, hr) != (1, 1) and d not in (32, 33):
                    continue
                out.append(('DelayLine', (8 if d % 2 else 3, d, he, hr), d))
    for d in ((16, 33, 64) if q else _NEAR_POW2 + (100,)):
        out.append(('ShiftRegisterBidirectional', (4, d), d))
        out.append(('Stack_ShiftRegister', (4, d), d))
    for k in ((5, 6) if q else (4, 5, 6, 7, 8)):
        for m in ((1 << k) - 1, 1 << k, (1 << k) + 1):
            out.append(('ModuloCounter', (k + 1, m), m))
            out.append(('ClockDivider', (2 * m, 1, 1), m))
    for w in ((5, 6) if q else (4, 5, 6, 7, 8, 9)):
        for r in (0, 1):
            for i in (0, 1):
                if q and (r, i) == (0, 0):
                    continue
                out.append(('Counter', (w, r, i), 1 << w))
        out.append(('StepUpCounter', (w, w, 1), 1 << w))
    for n in ((31, 33) if q else (15, 16, 17, 31, 32, 33, 64, 65, 100)):
        out.append(('Sequence', (8, tuple((7 * k + 1) & 255 for k in range(n)), 0), n))
        out.append(('Sequence', (8, tuple((5 * k + 3) & 255 for k in range(n)), 1), n))
        out.append(('PipelinePhase', ((1,) * n,), n))
    for aw in ((6, 7) if q else (5, 6, 7, 8, 9, 10)):      # the library refuses address widths above 10
        out.append(('SynchronousMemory', (aw, 8), 1 << aw))
        out.append(('DualPortSynchronousMemory', (aw, 8), 1 << aw))
    return [(by_name(n), c, s) for n, c, s in out]


def size_family(tier):
    """-> [(entry, cfg, size)]"""
    return _size_family(tier)


RESET_LIKE = ('r', 'reset')
