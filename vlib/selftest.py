"""Setup self-test: the machinery's own trusted pieces must pass before any check is believed."""
import sys


def main():
    ok = True
    try:
        from .vlog import selftest as vs
    except ImportError:
        vs = None
    if vs is not None:
        ok = vs.run() and ok
    print('selftest', 'ok' if ok else 'FAILED')
    return 0 if ok else 1


if __name__ == '__main__':
    sys.exit(main())
