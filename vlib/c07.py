"""C07 -- integer arithmetic blocks compute their mathematical function (DESIGN.md section C07)."""
from . import combsweep

LEVEL = 'exploration'
RULE = ('every catalogue arithmetic block x legal width/parameter configuration; inputs exhaustive when the total input '
        'width <= 12 (quick) / 14 (thorough) bits, else boundary x boundary + random; a case is (block, config, input vector); '
        'non-trivial = some input non-zero or the exact result needed reduction mod 2**w; distinct by content hash; history class: ONE long-lived instance per '
        'block x configuration driven with A,B,A returns over a small pool of in-domain vectors and, for every block with a documented domain (Div/Mod/SignedDiv divisor 0, '
        'rotation amounts beyond the width), A, an outside-domain vector that is applied and propagated but not judged, then A again (judged)')
SHARDS = {'quick': 1, 'thorough': 16}
TIMEOUT = {'quick': 600, 'thorough': 3000}
MIN_NONTRIVIAL = {'quick': 1000, 'thorough': 10000}


def run_check(run, tier, seed, shard):
    run.assume('Div/Mod/SignedDiv judged only for non-zero divisor; SignedDiv truncates toward zero; arithmetic shift and '
               'rotations only for result width <= data width (a narrower result holds the rotation reduced mod 2**width; a rotation by 0 or by '
               'the width is the identity); rotation amounts <= data width (larger constants raise in propagate on the pinned tree)')
    combsweep.run_prop(run, 'C07', tier, seed, shard, 500 if tier == 'quick' else 2400)


def post_merge(run, tier, seed):
    combsweep.post_merge(run, 'C07', tier)


def replay(run, case):
    return combsweep_replay(run, case)


def combsweep_replay(run, case):
    import py4hw
    from . import catalog
    from .common import muted, mask
    c = case['case']
    e = catalog.by_name(c['block'])
    cfg = _tup(c['cfg'])
    hw = py4hw.HWSystem()
    import contextlib
    if c.get('late_drivers'):
        with muted():
            ins, outs = e.build(hw, cfg, hw.wire)
            drv = []
            for k, w in enumerate(ins):
                d = hw.wire('drv%d' % k, w.getWidth())
                py4hw.Buf(hw, 'drvbuf%d' % k, d, w)
                drv.append(d)
            ins = drv
            sim = hw.getSimulator()
        # a stale-order defect needs a previous vector: apply the complement first
        for w in ins:
            w.put((1 << w.getWidth()) - 1)
        sim.propagateAll()
    elif c.get('history') is not None:
        # history workload: one long-lived plain instance; the earlier vectors (possibly outside the documented domain) are applied and propagated first
        with muted():
            ins, outs = e.build(hw, cfg, hw.wire)
            sim = hw.getSimulator()
        for vec in c['history']:
            for w, v in zip(ins, vec):
                w.put(int(v, 16) if isinstance(v, str) else v)
            try:
                sim.propagateAll()
            except Exception as ex:
                print('replay: earlier vector', vec, 'raises', repr(ex))
    elif c.get('shared_inputs'):
        from .combsweep import build_aliased
        ins, outs, sim, hw = build_aliased(e, cfg, c['shared_inputs'])
    else:
        with muted(), (catalog.hostile_lists(c['caller_list']) if c.get('caller_list') else contextlib.nullcontext()):
            ins, outs = e.build(hw, cfg, hw.wire)
            sim = hw.getSimulator()
    for w, v in zip(ins, c['inputs']):
        w.put(int(v, 16) if isinstance(v, str) else v)
    sim.propagateAll()
    exp = e.ref(cfg, [int(v, 16) if isinstance(v, str) else v for v in c['inputs']])
    got = [o.get() for o in outs]
    exp = [None if x is None else mask(x, o.getWidth()) for x, o in zip(exp, outs)]
    print('replay', c['block'], cfg, c['inputs'], 'expected', exp, 'observed', got)
    bad = any(x is not None and x != g for x, g in zip(exp, got))
    if bad:
        print('VIOLATION property=%s replay=%s' % (run.prop, 'replayed'))
    return 1 if bad else 0


def _tup(x):
    if isinstance(x, list):
        return tuple(_tup(y) for y in x)
    if isinstance(x, str) and x.startswith(('0x', '-0x')):
        return int(x, 16)
    return x
