"""E1 hook layer: event recorder / invariant hooks installed from the harness (no edits to /repo).

    with hooks.install() as rec:            # class-level: usable before the simulator exists
        sim = hw.getSimulator()             # leaves of every simulator sorted meanwhile get wrapped
        sim.clk(3)
    with hooks.install(sim) as rec:         # simulator already exists: its leaves are wrapped at once
        sim.clk(3)

For the duration of the `with` block the following are wrapped (and restored in a finally):
  Wire.put / Wire.prepare / Wire.settle / Wire.settleAll (self-less class function)   -- and the BidirWire copies
  Simulator.__init__ / topologicalSort / propagateAll / clk / _clk_cycle / _notifyListeners
  ClockDriverSimulator.clockAll
  every leaf's bound clock()/propagate()  (instance attribute shadowing the method, removed afterwards)

Each wrapper calls the real code and returns its result unchanged (an exception of the real code
propagates unchanged); around the call it appends one compact event

    (cycle, phase, kind, obj, old, new)

to rec.events and bumps rec.counters[kind].  `obj` is the object itself (kept alive for the run).
  kind        obj                  old                      new
  put         wire                 value before             value stored
  prepare     wire                 .next before (or None)   .next stored
  settle      wire                 value before             value after                   (also emitted by the settleAll wrapper for a prepared wire
                                                                                          whose Wire.settle() was never called: rec.synthetic_settles)
  settleAll   None                 len(Wire.prepared) in    len(Wire.prepared) out        (emitted at entry: 'settleAll', at exit: 'settled')
  clockAll    ClockDriverSimulator None                     None
  clock       leaf                 None                     None                          (emitted before the leaf's clock() runs)
  propagate   leaf                 None                     None
  cycle       simulator            total_clks at entry      None                          ('cycle' at entry, 'cycle_end' at exit: old=len(Wire.prepared), new=total_clks)
  sort        simulator            None                     number of propagatables       (after topologicalSort)
  propagateAll / clk / construct / notify: bracketing events.
Phases: construct | pre | clocking | settling | propagating | notify | idle.

Raw arguments: a put/prepare whose integral argument differs from the stored value (the block relied on
the mask) is counted in rec.raw_oor / rec.raw_oor_by_class (class of the leaf whose clock()/propagate()
was running, '<harness>' outside any leaf) and remembered (capped) in rec.raw_cases.

Post-conditions (C06), evaluated by the wrappers themselves, never raising into the code under test:
  stored value/next is numbers.Integral, 0 <= v < 2**width, and equals the integral argument reduced
  modulo 2**width.  Failures are appended to rec.post_bad (capped).  When `contracts=True` and icontract
  is importable, the same range condition is additionally layered as icontract.ensure post-conditions
  (named condition functions, explicit error=) between the real function and the recorder; a broken
  contract is caught by the recorder wrapper and appended to rec.contract_bad.  rec.contract_evals counts
  evaluations (0 when icontract is absent: the verdict never depends on it).
"""
import contextlib
import numbers

PHASES = ('construct', 'pre', 'clocking', 'settling', 'propagating', 'notify', 'idle')

_active = [None]


class WidthContractBroken(Exception):
    """raised by the optional icontract layer, always caught by the recorder wrapper"""


class Recorder:
    def __init__(self, keep_events=True, max_events=3_000_000, wrap_leaves=True):
        self.keep_events = keep_events
        self.max_events = max_events
        self.wrap_leaves = wrap_leaves
        self.events = []
        self.dropped = 0
        self.counters = {}
        self.phase_counts = {}
        self.phase = 'idle'
        self.cycle = 0
        self.in_cycle = False
        self.leaf = None
        self.raw_oor = 0
        self.raw_oor_by_class = {}
        self.raw_cases = []
        self.post_bad = []
        self.post_evals = 0
        self.contract_evals = 0
        self.contract_bad = []
        self.icontract = False
        self.subscribers = []
        self._wrapped = []
        self.pending = {}           # id(wire) -> [wire, last raw argument, settle events seen] since the last settleAll
        self.synthetic_settles = 0

    # -- events
    def emit(self, kind, obj, old, new):
        c = self.counters
        c[kind] = c.get(kind, 0) + 1
        pk = self.phase + ':' + kind
        pc = self.phase_counts
        pc[pk] = pc.get(pk, 0) + 1
        ev = (self.cycle, self.phase, kind, obj, old, new)
        if self.keep_events:
            if len(self.events) < self.max_events:
                self.events.append(ev)
            else:
                self.dropped += 1
        for s in self.subscribers:
            s(ev)

    def clear(self):
        """forget the recorded events (counters stay) -- for long runs judged cycle by cycle"""
        self.events = []

    def mark(self):
        return len(self.events)

    def since(self, mark):
        return self.events[mark:]

    # -- write post-conditions
    def _written(self, kind, wire, raw, stored, expect=None):
        """post-condition of one write. raw: the argument of put/prepare; expect: for settle, the last prepared argument
        (the settled value must be that argument reduced mod 2**width)."""
        self.post_evals += 1
        w = wire.width
        ok = isinstance(stored, numbers.Integral) and 0 <= stored < (1 << w)
        if ok and isinstance(expect, numbers.Integral) and stored != expect & ((1 << w) - 1):
            ok = False
            raw = expect
        if isinstance(raw, numbers.Integral) and expect is None:
            if raw != stored:
                self.raw_oor += 1
                cls = type(self.leaf).__name__ if self.leaf is not None else '<harness>'
                self.raw_oor_by_class[cls] = self.raw_oor_by_class.get(cls, 0) + 1
                if len(self.raw_cases) < 50:
                    self.raw_cases.append((kind, cls, w, raw, stored))
                if ok and stored != raw & ((1 << w) - 1):
                    ok = False
        if not ok and len(self.post_bad) < 200:
            self.post_bad.append(dict(kind=kind, wire=_path(wire), width=w, raw=raw, stored=stored, phase=self.phase,
                                      cycle=self.cycle, leaf=_lpath(self.leaf), leaf_class=type(self.leaf).__name__ if self.leaf is not None else None))

    # -- leaves
    def wrap_sim_leaves(self, sim):
        seen = set()
        leaves = list(getattr(sim, 'propagatables', []))
        for d in getattr(sim, 'clockDrivers', {}).values():
            leaves += list(d.clockables)
        for leaf in leaves:
            if id(leaf) in seen:
                continue
            seen.add(id(leaf))
            self.wrap_leaf(leaf)

    def wrap_leaf(self, leaf):
        for meth in ('propagate', 'clock'):
            if meth in vars(leaf):
                continue        # already wrapped (or the object shadows it itself)
            f = getattr(leaf, meth, None)
            if not callable(f):
                continue
            leaf.__dict__[meth] = self._leaf_wrapper(leaf, meth, f)
            self._wrapped.append((leaf, meth))

    def _leaf_wrapper(self, leaf, kind, f):
        rec = self

        def hooked(*a, **k):
            prev = rec.leaf
            rec.leaf = leaf
            rec.emit(kind, leaf, None, None)
            try:
                return f(*a, **k)
            finally:
                rec.leaf = prev
        hooked.__wrapped__ = f
        return hooked

    def unwrap_leaves(self):
        for leaf, meth in self._wrapped:
            leaf.__dict__.pop(meth, None)
        self._wrapped = []


def pending_count():
    """number of pending (prepared, not yet settled) updates, or None when the library's bookkeeping cannot be sized.
    Nothing else is assumed about Wire.prepared (list, dict, set ... or absent)."""
    try:
        import py4hw.base as B
        return len(B.Wire.prepared)
    except Exception:
        return None


def drop_pending():
    """harness hygiene between cases: forget pending updates without changing the container's type"""
    try:
        import py4hw.base as B
        p = B.Wire.prepared
        if len(p):
            p.clear()
    except Exception:
        pass


def _path(w):
    try:
        return w.getFullPath()
    except Exception:
        return repr(w)


def _lpath(leaf):
    if leaf is None:
        return None
    try:
        return leaf.getFullPath()
    except Exception:
        return repr(leaf)


def real(leaf, meth):
    """the unwrapped bound method of a leaf (whether or not it is currently wrapped)"""
    f = getattr(leaf, meth)
    return getattr(f, '__wrapped__', f)


# --------------------------------------------------------------------------- icontract layer (optional)

def _contract_layer(rec, cls, orig):
    """returns {name: function} with icontract.ensure post-conditions on put/prepare/settle, or {} if unavailable"""
    try:
        import icontract
    except Exception:
        return {}

    def stored_value_fits_width(self):
        rec.contract_evals += 1
        v = self.value
        return isinstance(v, numbers.Integral) and 0 <= v < (1 << self.width)

    def prepared_value_fits_width(self):
        rec.contract_evals += 1
        v = self.next
        return isinstance(v, numbers.Integral) and 0 <= v < (1 << self.width)

    def err_value(self):
        return WidthContractBroken('value %r of %s does not fit %d bits' % (self.value, _path(self), self.width))

    def err_next(self):
        return WidthContractBroken('prepared %r of %s does not fit %d bits' % (self.next, _path(self), self.width))

    out = {}
    try:
        out['put'] = icontract.ensure(stored_value_fits_width, error=err_value)(orig['put'])
        out['prepare'] = icontract.ensure(prepared_value_fits_width, error=err_next)(orig['prepare'])
        out['settle'] = icontract.ensure(stored_value_fits_width, error=err_value)(orig['settle'])
    except Exception:
        return {}
    rec.icontract = True
    return out


# --------------------------------------------------------------------------- install

@contextlib.contextmanager
def install(sim=None, keep_events=True, contracts=False, wrap_leaves=True, max_events=3_000_000):
    """Context manager: install the E1 wrappers, yield the Recorder, remove everything in a finally."""
    import py4hw.base as B
    import py4hw.simulation as S
    if _active[0] is not None:
        raise RuntimeError('hooks.install is not re-entrant')
    rec = Recorder(keep_events=keep_events, max_events=max_events, wrap_leaves=wrap_leaves)
    saved = []      # (owner, name, had_own, original)

    def patch(owner, name, new):
        had = name in vars(owner)
        saved.append((owner, name, had, vars(owner).get(name)))
        setattr(owner, name, new)

    def wire_wrappers(cls):
        orig = {n: vars(cls)[n] for n in ('put', 'prepare', 'settle', 'settleAll') if n in vars(cls)}
        inner = dict(orig)
        if contracts:
            inner.update(_contract_layer(rec, cls, orig))

        if 'put' in orig:
            f_put = inner['put']

            def put(self, val, *a, **k):
                old = self.__dict__.get('value')
                try:
                    r = f_put(self, val, *a, **k)
                except WidthContractBroken as e:
                    r = None
                    if len(rec.contract_bad) < 200:
                        rec.contract_bad.append(('put', _path(self), str(e)))
                new = self.__dict__.get('value')
                rec.emit('put', self, old, new)
                rec._written('put', self, val, new)
                return r
            patch(cls, 'put', put)

        if 'prepare' in orig:
            f_prep = inner['prepare']

            def prepare(self, val, *a, **k):
                old = self.__dict__.get('next')
                try:
                    r = f_prep(self, val, *a, **k)
                except WidthContractBroken as e:
                    r = None
                    if len(rec.contract_bad) < 200:
                        rec.contract_bad.append(('prepare', _path(self), str(e)))
                new = self.__dict__.get('next')
                rec.emit('prepare', self, old, new)
                rec._written('prepare', self, val, new)
                pend = rec.pending.get(id(self))
                if pend is None:
                    rec.pending[id(self)] = [self, val, 0]
                else:
                    pend[1] = val
                return r
            patch(cls, 'prepare', prepare)

        if 'settle' in orig:
            f_settle = inner['settle']

            def settle(self, *a, **k):
                old = self.__dict__.get('value')
                try:
                    r = f_settle(self, *a, **k)
                except WidthContractBroken as e:
                    r = None
                    if len(rec.contract_bad) < 200:
                        rec.contract_bad.append(('settle', _path(self), str(e)))
                new = self.__dict__.get('value')
                rec.emit('settle', self, old, new)
                pend = rec.pending.get(id(self))
                if pend is not None:
                    pend[2] += 1
                rec._written('settle', self, None, new, expect=pend[1] if pend is not None else None)
                return r
            patch(cls, 'settle', settle)

        if 'settleAll' in orig:
            f_all = orig['settleAll']

            def settleAll(*a, **k):
                prev = rec.phase
                rec.phase = 'settling'
                rec.emit('settleAll', None, pending_count(), None)
                before = {k: v[0].__dict__.get('value') for k, v in rec.pending.items()}
                try:
                    return f_all(*a, **k)
                finally:
                    # public effect of settling: the value each prepared wire holds now.  A library that settles
                    # without calling Wire.settle() (refactored internals) is observed here instead.
                    for k, (w, raw, nset) in list(rec.pending.items()):
                        if nset == 0:
                            rec.synthetic_settles += 1
                            new = w.__dict__.get('value')
                            rec.emit('settle', w, before.get(k), new)
                            rec._written('settle', w, None, new, expect=raw)
                    rec.pending = {}
                    rec.emit('settled', None, None, pending_count())
                    rec.phase = 'propagating' if rec.in_cycle else prev
            patch(cls, 'settleAll', settleAll)

    try:
        _active[0] = rec
        wire_wrappers(B.Wire)
        wire_wrappers(B.BidirWire)

        o_init = S.Simulator.__init__

        def __init__(self, sys, *a, **k):
            prev = rec.phase
            rec.phase = 'construct'
            rec.emit('construct', self, None, None)
            try:
                return o_init(self, sys, *a, **k)
            finally:
                rec.emit('constructed', self, None, pending_count())
                rec.phase = prev
        patch(S.Simulator, '__init__', __init__)

        o_sort = S.Simulator.topologicalSort

        def topologicalSort(self, *a, **k):
            try:
                return o_sort(self, *a, **k)
            finally:
                rec.emit('sort', self, None, len(getattr(self, 'propagatables', ())))
                if rec.wrap_leaves:
                    rec.wrap_sim_leaves(self)
        patch(S.Simulator, 'topologicalSort', topologicalSort)

        o_pall = S.Simulator.propagateAll

        def propagateAll(self, *a, **k):
            rec.emit('propagateAll', self, None, None)
            return o_pall(self, *a, **k)
        patch(S.Simulator, 'propagateAll', propagateAll)

        o_clk = S.Simulator.clk

        def clk(self, *a, **k):
            prev = rec.phase
            rec.phase = 'pre'
            rec.emit('clk', self, self.total_clks, (a[0] if a else k.get('cycles', 1)))
            try:
                return o_clk(self, *a, **k)
            finally:
                rec.phase = prev
                rec.emit('clk_end', self, None, self.total_clks)
        patch(S.Simulator, 'clk', clk)

        o_cyc = S.Simulator._clk_cycle

        def _clk_cycle(self, *a, **k):
            prev = rec.phase
            rec.cycle += 1
            rec.in_cycle = True
            rec.phase = 'clocking'
            rec.emit('cycle', self, self.total_clks, None)
            try:
                return o_cyc(self, *a, **k)
            finally:
                rec.in_cycle = False
                rec.phase = 'idle'
                rec.emit('cycle_end', self, pending_count(), self.total_clks)
                rec.phase = prev
        patch(S.Simulator, '_clk_cycle', _clk_cycle)

        o_notify = S.Simulator._notifyListeners

        def _notifyListeners(self, *a, **k):
            prev = rec.phase
            rec.phase = 'notify'
            rec.emit('notify', self, None, len(self.listeners))
            try:
                return o_notify(self, *a, **k)
            finally:
                rec.phase = prev if not rec.in_cycle else 'notify'
        patch(S.Simulator, '_notifyListeners', _notifyListeners)

        o_call = S.ClockDriverSimulator.clockAll

        def clockAll(self, *a, **k):
            rec.phase = 'clocking'
            rec.emit('clockAll', self, None, None)
            return o_call(self, *a, **k)
        patch(S.ClockDriverSimulator, 'clockAll', clockAll)

        if sim is not None and wrap_leaves:
            rec.wrap_sim_leaves(sim)
        yield rec
    finally:
        rec.unwrap_leaves()
        for owner, name, had, orig in reversed(saved):
            if had:
                setattr(owner, name, orig)
            else:
                try:
                    delattr(owner, name)
                except AttributeError:
                    pass
        _active[0] = None


install_class_level = install


# --------------------------------------------------------------------------- helpers over a design

def all_logic(root):
    """every Logic object under root (own traversal of .children, not allLeaves)"""
    out = []
    stack = [root]
    while stack:
        o = stack.pop()
        out.append(o)
        stack.extend(reversed(list(o.children.values())))
    return out


def all_wires(root):
    """every wire reachable from the HWSystem: _wires of every Logic recursively plus port wires; unique by identity"""
    seen = {}
    for o in all_logic(root):
        for w in o._wires.values():
            seen.setdefault(id(w), w)
        for p in list(o.inPorts) + list(o.outPorts) + list(o.inOutPorts):
            w = p.wire
            if w is not None and hasattr(w, 'width') and hasattr(w, 'value'):
                seen.setdefault(id(w), w)
    return list(seen.values())


def range_violations(wires, check_next=False):
    """wires whose value is not an integer in [0, 2**width)"""
    bad = []
    for w in wires:
        v = w.value
        if not (isinstance(v, numbers.Integral) and 0 <= v < (1 << w.width)):
            bad.append((w, 'value', v))
    return bad
