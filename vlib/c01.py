"""C01 -- generated Verilog behaves exactly like the simulated structural design (DESIGN.md section 4 C01).

Translation validation by co-execution: every generated design is simulated by the real py4hw simulator and, in
lockstep, its emitted Verilog text is interpreted by the E4 engine; all top-level outputs are compared at power-up,
after every input change (settled) and after every clock edge.
"""
import time

from . import catalog, cosim, dutgen, reach
from .common import muted, rng, shard_slice, stable_hash

LEVEL = 'translation_validation'
RULE = ('designs = (a) every combinational catalogue block x configuration wrapped alone in a Dut, emitted three ways '
        '(direct child / child of a child / two instances sharing a named module), (b) every sequential catalogue block x '
        'configuration, (c) parameter-boundary and wide-control-port classes, (d) random compositions of 3-40 blocks with '
        'registers in feedback and 0-2 levels of hierarchy, (e) hand-written-body blocks; inputs: exhaustive when the total '
        'input width is small, else boundary + random vectors, duty-cycled control sequences for sequential designs; '
        'a program is non-trivial when it was compared (not refused/invalid/indeterminate) and at least one output took '
        '>= 2 distinct values; distinct by hash of (workload, block, configuration, emission mode) or of the plan')
SHARDS = {'quick': 1, 'thorough': 16}
TIMEOUT = {'quick': 900, 'thorough': 3300}
MIN_NONTRIVIAL = {'quick': 150, 'thorough': 1500}


# --------------------------------------------------------------------------- design builders

def unit_design(entry, cfg, mode):
    import py4hw
    hw = py4hw.HWSystem()
    D = cosim.Dut.cls('Dut')
    with muted():
        dut = D(hw, 'dut')
        if mode == 'direct':
            ins, outs = entry.build(dut, cfg, hw.wire)
        elif mode == 'lists':
            # built by a caller that reuses the list objects it passed (see catalog.hostile_lists): the text is generated afterwards,
            # so an emitter that reads a kept reference to the caller's list prints the wrong operands
            import zlib
            m = ('clear', 'reverse', 'rotate', 'fill')[zlib.crc32(repr((entry.name, cfg)).encode()) % 4]
            with catalog.hostile_lists(m) as hl:
                ins, outs = entry.build(dut, cfg, hw.wire)
            if not hl.lists_seen:
                raise ValueError('no list argument')
        elif mode == 'clash':
            # the nets the parent connects to the block carry the names the block uses for its own internal wires
            pool = internal_wire_names(entry, cfg)
            if not pool:
                raise ValueError('no internal wires')
            used = set()
            k = [0]

            def mk(name, w):
                n = pool[k[0] % len(pool)]
                k[0] += 1
                if n in used:
                    n = name
                used.add(n)
                return hw.wire(n, w)
            ins, outs = entry.build(dut, cfg, mk)
        elif mode == 'nested':
            M = cosim.Dut.cls('Mid')
            mid = M(dut, 'mid')
            ins, outs = entry.build(mid, cfg, hw.wire)
            cosim.wrap_ports(mid, ins, outs)
        elif mode == 'twice':
            ins, outs = entry.build(dut, cfg, hw.wire)
            obj = dut.children.pop('d')
            obj.name = 'd0'
            dut.children['d0'] = obj
            it = iter(ins)
            k = [0]

            def mk(name, w):
                # second instance: same input nets, fresh outputs
                sig = dutgen.signature(entry, cfg)[k[0]]
                k[0] += 1
                if sig[2] == 'in':
                    return next(it)
                return hw.wire(name + '_2', w)
            ins2, outs2 = entry.build(dut, cfg, mk)
            outs = list(outs) + list(outs2)
        else:
            raise ValueError(mode)
        cosim.wrap_ports(dut, ins, outs)
    return cosim.Design(hw, dut, list(ins), list(outs), '%s%r/%s' % (entry.name, cfg, mode))


def internal_wire_names(entry, cfg):
    """Names of the wires a block creates inside itself (any depth), multi-bit ones first."""
    import py4hw
    hw = py4hw.HWSystem()
    with muted():
        entry.build(hw, cfg, hw.wire)
    names = []

    def walk(o):
        for n, w in getattr(o, '_wires', {}).items():
            names.append((0 if w.getWidth() > 1 else 1, len(names), n))
        for c in o.children.values():
            walk(c)
    for c in hw.children.values():
        walk(c)
    out = []
    for _, _, n in sorted(names):
        if n not in out:
            out.append(n)
    return out


def pair_design(entry, cfg1, cfg2):
    """Two differently configured instances of one catalogue block side by side (module-name collisions, shared bodies)."""
    import py4hw
    hw = py4hw.HWSystem()
    D = cosim.Dut.cls('Dut')
    with muted():
        dut = D(hw, 'dut')
        ins, outs = [], []
        for k, cfg in enumerate((cfg1, cfg2)):
            i, o = entry.build(dut, cfg, lambda n, w, k=k: hw.wire('%s_%d' % (n, k), w))
            obj = dut.children.pop('d')
            obj.name = 'd%d' % k
            dut.children['d%d' % k] = obj
            ins += list(i)
            outs += list(o)
        cosim.wrap_ports(dut, ins, outs)
    return cosim.Design(hw, dut, ins, outs, '%s%r+%r/pair' % (entry.name, cfg1, cfg2))


def seq_design(sentry, cfg):
    import py4hw
    hw = py4hw.HWSystem()
    D = cosim.Dut.cls('Dut')
    with muted():
        dut = D(hw, 'dut')
        ins, outs = sentry.build(dut, cfg, hw.wire)
        ins = list(ins.values()) if isinstance(ins, dict) else list(ins)
        outs = list(outs.values()) if isinstance(outs, dict) else list(outs)
        cosim.wrap_ports(dut, ins, outs)
    return cosim.Design(hw, dut, ins, outs, '%s%r' % (sentry.name, cfg))


def special_designs():
    """(label, builder(hw, dut) -> (ins, outs), sequential) for parameter-boundary and wide-control classes."""
    import py4hw
    out = []

    def add(label, f, seq=False):
        out.append((label, f, seq))

    for w, sw in [(4, 2), (8, 3)]:
        def f(hw, dut, w=w, sw=sw):
            s = hw.wire('s', sw); a = hw.wire('a', w); b = hw.wire('b', w); r = hw.wire('r', w)
            py4hw.Mux2(dut, 'm', s, a, b, r)
            return [s, a, b], [r]
        add('Mux2(wide sel %d)' % sw, f)
    for ew in (2, 3):
        def f(hw, dut, ew=ew):
            d = hw.wire('d', 4); q = hw.wire('q', 4); e = hw.wire('e', ew)
            py4hw.Reg(dut, 'r', d, q, enable=e)
            return [d, e], [q]
        add('Reg(wide enable %d)' % ew, f, True)

        def f(hw, dut, ew=ew):
            d = hw.wire('d', 4); q = hw.wire('q', 4); r = hw.wire('r', ew)
            py4hw.Reg(dut, 'r', d, q, reset=r, reset_value=3)
            return [d, r], [q]
        add('Reg(wide reset %d)' % ew, f, True)
    # block constants taken from a Parameter object owned by an enclosing module (parent, grandparent, great-grandparent of the
    # block), with and without an unrelated parameter of the same name on the block's own parent
    for kind in ('ShiftLeftConstant', 'ShiftRightConstant'):
        for levels in (0, 1, 2):
            for n, own in [(3, None), (3, 1), (1, 2), (0, 5), (5, 5)]:
                def f(hw, dut, kind=kind, levels=levels, n=n, own=own):
                    a = hw.wire('a', 12); r = hw.wire('r', 12)
                    owner = _PLevel(dut, 'owner', a, r)
                    owner.addParameter('N', n)
                    inner = owner
                    for k in range(levels):
                        inner = _PLevel(inner, 'lvl%d' % k, a, r)
                    src = a
                    if own is not None and inner is not owner:
                        inner.addParameter('N', own)
                        t = inner.wire('t', 12); u = inner.wire('u', 12)
                        py4hw.ShiftRightConstant(inner, 'pre', a, inner.getParameter('N'), t)
                        py4hw.ShiftLeftConstant(inner, 'undo', t, inner.getParameter('N'), u)
                        src = u
                    getattr(py4hw, kind)(inner, 'sh', src, owner.getParameter('N'), r)
                    return [a], [r]
                add('%s(Parameter of level -%d, N=%d, own N=%s)' % (kind, levels, n, own), f)
    for w, v in [(2, 5), (8, -1), (4, 16), (8, 256 + 7), (3, -3)]:
        def f(hw, dut, w=w, v=v):
            a = hw.wire('a', w); r = hw.wire('r', 1)
            py4hw.EqualConstant(dut, 'e', a, v, r)
            return [a], [r]
        add('EqualConstant(out-of-range v=%d,w=%d)' % (v, w), f)
    for w, v in [(8, 300), (8, -2), (1, 3), (64, -1), (33, 1 << 32), (64, (1 << 64) - 1), (16, 70000), (4, -9)]:
        def f(hw, dut, w=w, v=v):
            x = hw.wire('x', 1); r = hw.wire('r', w); r2 = hw.wire('r2', 1)
            py4hw.Constant(dut, 'k', v, r)
            py4hw.Buf(dut, 'b', x, r2)
            return [x], [r, r2]
        add('Constant(v=%d,w=%d)' % (v, w), f)
    for rv, w in [(-1, 8), (300, 8), (5, 2), (255, 8), (1 << 40, 16)]:
        def f(hw, dut, rv=rv, w=w):
            d = hw.wire('d', w); q = hw.wire('q', w); r = hw.wire('r', 1); e = hw.wire('e', 1)
            q2 = hw.wire('q2', w)
            py4hw.Reg(dut, 'r1', d, q, enable=e, reset=r, reset_value=rv)
            py4hw.Reg(dut, 'r2', q, q2)
            return [d, r, e], [q, q2]
        add('Reg(reset_value=%d,w=%d)+chain' % (rv, w), f, True)
    # inverting gates with a result wire wider / narrower than the operands
    for gate in ('Xor2', 'Nand2', 'Nor2', 'Not'):
        for w, rw in [(4, 6), (8, 9), (4, 2)]:
            def f(hw, dut, gate=gate, w=w, rw=rw):
                a = hw.wire('a', w); b = hw.wire('b', w); r = hw.wire('r', rw)
                if gate == 'Not':
                    py4hw.Not(dut, 'g', a, r)
                    return [a], [r]
                getattr(py4hw, gate)(dut, 'g', a, b, r)
                return [a, b], [r]
            add('%s(result %s w=%d,rw=%d)' % (gate, 'wider' if rw > w else 'narrower', w, rw), f)
    # shifts by constants at/over the width into different result widths
    for a, n, r in [(8, 8, 8), (8, 9, 16), (4, 0, 2), (8, 40, 8), (16, 3, 8)]:
        def f(hw, dut, a=a, n=n, r=r):
            A = hw.wire('a', a); R = hw.wire('r', r); R2 = hw.wire('r2', r)
            py4hw.ShiftLeftConstant(dut, 'sl', A, n, R)
            py4hw.ShiftRightConstant(dut, 'sr', A, n, R2)
            return [A], [R, R2]
        add('ShiftConstant(a=%d,n=%d,r=%d)' % (a, n, r), f)
    # hand-written body: UART message generator (MsgSequencer.verilogBody) -- clocked, no inputs
    try:
        from py4hw.logic.protocol.uart.sequencer import UARTMsgGenerator

        def f(hw, dut):
            tx = hw.wire('tx')
            UARTMsgGenerator(dut, 'gen', tx, 16, 1, 'Hi')
            return [], [tx]
        add('UARTMsgGenerator', f, True)
        for msg in ('A', 'xyz', 'abcd', 'hello', 'Z9'):
            def f(hw, dut, msg=msg):
                tx = hw.wire('tx')
                UARTMsgGenerator(dut, 'gen', tx, 16, 1, msg)
                return [], [tx]
            add('UARTMsgGenerator(len %d)' % len(msg), f, True)
        from py4hw.logic.protocol.uart.sequencer import MsgSequencer
        for msg in ('A', 'ab', 'xyz', 'hello'):
            def f(hw, dut, msg=msg):
                ready = hw.wire('ready'); valid = hw.wire('valid'); v = hw.wire('v', 8)
                MsgSequencer(dut, 'seq', ready, valid, v, msg)
                return [ready], [valid, v]
            add('MsgSequencer(len %d)' % len(msg), f, True)
    except Exception:
        pass
    # clock drivers that are not called like their wire, or not 'clk' at all (every driver in the repository is named like its wire)
    for cname, wname in (('sysclk', 'CLOCK_100'), ('CLK', 'clk_i'), ('clk', 'clock_50')):
        def f(hw, dut, cname=cname, wname=wname):
            hw.clockDriver = py4hw.ClockDriver(cname, 100E6, 0, wire=hw.wire(wname))
            a = hw.wire('a', 4); e = hw.wire('e'); q1 = hw.wire('q1', 4); q2 = hw.wire('q2', 4); c = hw.wire('c', 3)
            M = cosim.Dut.cls('Mid')
            py4hw.Reg(dut, 'r1', a, q1, enable=e)
            mid = M(dut, 'mid'); mid.addIn('q1', q1); mid.addOut('q2', q2); mid.addIn('e', e); mid.addOut('c', c)
            t = mid.wire('t', 4)
            py4hw.Reg(mid, 'r2', q1, t); py4hw.Not(mid, 'n', t, q2)
            py4hw.Reg(mid, 'r3', _low3(mid, q1), c, enable=e)
            return [a, e], [q1, q2, c]
        add('clock driver %s on wire %s' % (cname, wname), f, True)
    # the optional-port / parameter reuse designs of C03 (several differently configured instances of one block in one parent)
    # are also simulated: an instance bound to the wrong shared body is a behavioural difference too
    try:
        from . import c03
        for label, f in c03.reuse_designs():
            seq = any(k in label for k in ('Reg', 'Stack'))
            add('reuse: ' + label, f, seq)
        # ... and its naming-stress designs (reserved words, prefixes, nets called like the clock): where the text is legal it must
        # also behave
        for label, f in c03.naming_designs():
            add('naming: ' + label, f, 'clocked' in label)
    except Exception:
        pass
    return out


def _PLevel(parent, name, a, r):
    """A structural level with one input and one output port, for the Parameter-owned-constant designs."""
    import py4hw

    class PLevel(py4hw.Logic):
        def __init__(self, parent, name, a, r):
            super().__init__(parent, name)
            self.addIn('a', a)
            self.addOut('r', r)
    return PLevel(parent, name, a, r)


def _low3(parent, w):
    import py4hw
    r = parent.wire('low3', 3)
    py4hw.Range(parent, 'low3', w, 2, 0, r)
    return r


def special_class(label):
    """Mechanism class of a special design: block name + parameter class, without the concrete numbers."""
    head = label.split('(')[0]
    if '(wide ' in label:
        return head + '(wide ' + label.split('(wide ')[1].split(' ')[0] + ')'
    if '(result wider' in label:
        return head + '(result wider)'
    if '(result narrower' in label:
        return head + '(result narrower)'
    if 'out-of-range' in label:
        return head + '(out-of-range constant)'
    if '(Parameter of level' in label:
        return head + '(constant from a Parameter of an enclosing module)'
    return head


def special_design(label, f, seq):
    import py4hw
    hw = py4hw.HWSystem()
    D = cosim.Dut.cls('Dut')
    with muted():
        dut = D(hw, 'dut')
        ins, outs = f(hw, dut)
        cosim.wrap_ports(dut, ins, outs)
    return cosim.Design(hw, dut, ins, outs, label)


# --------------------------------------------------------------------------- judging

def classify(out, workload, block, mode, cfg=None):
    m = out.mismatch
    if m.get('x_kind'):
        return 'verilog_out_of_range_access', dict(x_kind=m['x_kind'], block=block)
    fields = dict(workload=workload, block=block, mode=mode, when=m['when'])
    if block == 'EqualConstant(out-of-range constant)' and m['width'] == 1:
        # mechanism: the structural body compares the low bits of v (Minterm), the inlined assign compares the raw v
        import re
        mm = re.search(r'v=(-?\d+),w=(\d+)', str(cfg))
        if mm:
            v, w = int(mm.group(1)), int(mm.group(2))
            a = m['inputs'].get('a', 0)
            low_equal = (a & ((1 << w) - 1)) == (v & ((1 << w) - 1)) if w > 1 else (a == int(v != 0))
            fields = dict(block=block, relation='simulator_matches_low_bits_of_v' if (low_equal and m['simulator'] == 1 and m['verilog'] == 0) else 'other')
            return 'equalconstant_out_of_range', fields
    if block == 'DualPortSynchronousMemory' and isinstance(cfg, (tuple, list)) and len(cfg) == 5 and len(set(cfg[1:])) > 1:
        # mechanism: the hand-written body sizes the memory array and both read registers with one width (port a's read data), the
        # simulator keeps whatever was written and shows it on each port at that port's width
        return 'dualport_memory_ports_of_different_widths', dict(block=block, clause='data nets of different widths')
    return 'c01_output_mismatch', fields


def aliased_named_modules(root):
    """Module names (structureName) of objects that have two ports on one wire: the body emitted for the first such
    object is specialised to that aliasing (wire names are keyed by wire object) although other instances share it."""
    import py4hw.rtl_generation as rg
    out = set()

    def walk(o):
        for c in o.children.values():
            if hasattr(c, 'structureName'):
                ws = [id(p.wire) for p in list(c.inPorts) + list(c.outPorts) if p.wire is not None]
                if len(ws) != len(set(ws)):
                    try:
                        out.add(rg.getVerilogModuleName(c))
                    except Exception:
                        pass
            walk(c)
    walk(root)
    return out


def named_modules_on_path(root, inst_path):
    import py4hw.rtl_generation as rg
    names = []
    o = root
    for part in inst_path.split('/'):
        n = part[2:] if part.startswith('i_') and part[2:] in o.children else part
        if n not in o.children:
            break
        o = o.children[n]
        if hasattr(o, 'structureName'):
            try:
                names.append(rg.getVerilogModuleName(o))
            except Exception:
                pass
    return names


def judge(run, des, out, workload, block, cfg, mode, case):
    run.ev()
    run.count('designs')
    run.count('status_' + out.status)
    run.count('cycles', out.cycles)
    run.count('output_comparisons', out.compared)
    run.count('x_skipped', out.x_skipped)
    run.count('modules_parsed', out.modules)
    for k_, v_ in getattr(out, 'x_kinds', {}).items():
        run.count('x_' + k_, v_)
    if out.status == 'compared':
        run.count('programs_compared')
        if out.toggled >= 1:
            run.nt(stable_hash([workload, block, repr(cfg), mode]) if workload != 'random' else stable_hash(case))
    elif out.status == 'invalid_text':
        key = out.detail.split('[')[0].split(':')[0] if out.detail else '?'
        run.count('invalid_text_' + key)
    if out.mismatch is not None:
        key, fields = classify(out, workload, block, mode, cfg)
        m = out.mismatch
        # where do the two sides part ways?
        culprits = []
        try:
            culprits = cosim.localise(des, out.interp)
        except Exception as e:
            culprits = [dict(error=repr(e)[:100])]
        if workload == 'random' and case.get('plan') is not None and des.meta.get('sequential'):
            # state may have diverged long before it reached an output: find the first point where internal nets part ways
            try:
                fd = cosim.first_divergence(lambda: dutgen.instantiate(case['plan']), case.get('vectors') or [], True, limit=m['cycle'])
                if fd is not None:
                    culprits = [dict(x, first_seen='cycle %d %s' % (fd[0], fd[1])) for x in fd[2]] + culprits
            except Exception as e:
                culprits.append(dict(error='first-divergence localisation: ' + repr(e)[:100]))
        case = dict(case, culprits=culprits[:6])
        if key == 'c01_output_mismatch' and culprits and 'block' in culprits[0]:
            fields['culprit_block'] = culprits[0]['block']
            aliased = aliased_named_modules(des.dut)
            onpath = set()
            for c in culprits:
                if 'inst' in c:
                    onpath.update(named_modules_on_path(des.dut, c['inst']))
            if aliased & onpath:
                key = 'named_module_port_aliasing'
                fields = dict(mechanism='body of a shared named module was emitted from an instance with two ports on one wire')
            c0 = culprits[0]
            if key == 'c01_output_mismatch' and c0.get('block') == 'DualPortSynchronousMemory' and str(c0.get('port', '')).startswith('readdata'):
                ws = c0.get('widths', {})
                if len({ws.get(n) for n in ('readdata_a', 'readdata_b', 'writedata_a', 'writedata_b')}) > 1:
                    key = 'dualport_memory_ports_of_different_widths'
                    fields = dict(block='DualPortSynchronousMemory', clause='data nets of different widths')
        run.violation(key, fields, dict(case, mismatch=m), expected=m['simulator'], observed=m['verilog'],
                      what='%s: output %s %s cycle %d: simulator %d, verilog %d' % (des.label, m['output'], m['when'], m['cycle'], m['simulator'], m['verilog']))
    if run.evaluations % 97 == 1:
        run.sample(dict(design=des.label, status=out.status, cycles=out.cycles, comparisons=out.compared, outputs_toggled=out.toggled,
                        detail=out.detail, text_head=(out.text or '')[:160]))


def run_check(run, tier, seed, shard):
    quick = tier == 'quick'
    deadline = time.time() + (700 if quick else 3000)
    run.assume('E4 interpreter semantics (DESIGN.md Appendix A): 2-state, zero power-up of uninitialised state, one implicit clock')
    run.assume('x sources (division/modulo by zero, out-of-range selects, unsized literals over 32 bits) make a comparison indeterminate: skipped, counted')
    run.assume('texts that do not parse/resolve are counted here as invalid_text and judged by C03, not C01')
    funcs = reach.rtl_emitters()
    with reach.Reach(funcs) as rc:
        _units(run, tier, seed, shard, deadline)
        _sequentials(run, tier, seed, shard, deadline)
        _specials(run, tier, seed, shard, deadline)
        _systems(run, tier, seed, shard, deadline)
        _random(run, tier, seed, shard, deadline)
    run.extra['emitter_calls'] = {k: v for k, v in rc.counts.items() if v}
    run.extra['emitters_never_called'] = sorted(k for k, v in rc.counts.items() if not v)
    run.extra['programs'] = run.counters.get('programs_compared', 0)
    run.extra['disagreements_checked'] = run.counters.get('output_comparisons', 0)
    if time.time() > deadline:
        run.inconclusive.append('watchdog reached before the workload finished')
    if run.counters.get('programs_compared', 0) == 0:
        run.inconclusive.append('no program was compared')


def _units(run, tier, seed, shard, deadline):
    quick = tier == 'quick'
    jobs = []
    for e in catalog.ENTRIES:
        cfgs = e.configs(tier)
        rnd = rng(seed, 'c01-unit', e.name)
        if quick and len(cfgs) > 10:
            cfgs = rnd.sample(cfgs, 10)
        elif not quick and len(cfgs) > 120:
            cfgs = rnd.sample(cfgs, 120)
        for cfg in cfgs:
            for mode in ('direct', 'nested', 'twice', 'clash', 'lists'):
                jobs.append((e, cfg, mode))
    # pairs of different configurations of one block in one design
    for e in catalog.ENTRIES:
        cfgs = e.configs(tier)
        if len(cfgs) < 2:
            continue
        rnd = rng(seed, 'c01-pair', e.name)
        for _ in range(4 if quick else 40):
            c1, c2 = rnd.sample(cfgs, 2)
            jobs.append((e, (c1, c2), 'pair'))
    jobs = shard_slice(jobs, shard)
    for e, cfg, mode in jobs:
        if time.time() > deadline or run.too_many:
            break
        rnd = rng(seed, 'c01-unit-v', e.name, repr(cfg), mode)
        try:
            des = pair_design(e, cfg[0], cfg[1]) if mode == 'pair' else unit_design(e, cfg, mode)
        except Exception as ex:
            run.count('unit_no_internal_wires' if mode == 'clash' else 'unit_no_list_argument' if mode == 'lists' else 'unit_build_failed')
            continue
        vecs = cosim.gen_vectors(des.ins, rnd, 30 if quick else 120, exhaustive_bits=8 if quick else 11)
        out = cosim.cosim(des, vecs, False)
        judge(run, des, out, 'unit', e.name, cfg, mode, dict(workload='unit', block=e.name, cfg=cfg, mode=mode))


def _sequentials(run, tier, seed, shard, deadline):
    quick = tier == 'quick'
    try:
        from . import seqcat
    except ImportError:
        run.count('seqcat_missing')
        return
    jobs = []
    for e in seqcat.ENTRIES:
        cfgs = e.configs(tier)
        rnd = rng(seed, 'c01-seq', e.name)
        if quick and len(cfgs) > 8:
            cfgs = rnd.sample(cfgs, 8)
        for cfg in cfgs:
            jobs.append((e, cfg))
    jobs = shard_slice(jobs, shard)
    for e, cfg in jobs:
        if time.time() > deadline or run.too_many:
            break
        rnd = rng(seed, 'c01-seq-v', e.name, repr(cfg))
        try:
            des = seq_design(e, cfg)
        except Exception:
            run.count('seq_build_failed')
            continue
        vecs = cosim.gen_control_vectors(des.ins, rnd, 40 if quick else 200)
        if getattr(e, 'domain', None) is not None:
            names = {w.name for w in des.ins}
            vecs = [dict((k, v) for k, v in e.domain(cfg, dict(v)).items() if k in names) for v in vecs]
        out = cosim.cosim(des, vecs, True)
        judge(run, des, out, 'seq-unit', e.name, cfg, 'direct', dict(workload='seq-unit', block=e.name, cfg=cfg))


def _specials(run, tier, seed, shard, deadline):
    jobs = shard_slice(special_designs(), shard)
    for label, f, seq in jobs:
        if time.time() > deadline or run.too_many:
            break
        rnd = rng(seed, 'c01-special', label)
        try:
            des = special_design(label, f, seq)
        except Exception:
            run.count('special_refused_at_construction')      # e.g. Sign asserts a 1-bit flag: refusing is fine
            continue
        n = 64 if tier == 'quick' else 300
        vecs = cosim.gen_control_vectors(des.ins, rnd, n) if seq else cosim.gen_vectors(des.ins, rnd, n, exhaustive_bits=10)
        if label.startswith('UARTMsgGenerator'):
            vecs = [{} for _ in range(600 if tier == 'quick' else 3000)]
        out = cosim.cosim(des, vecs, seq)
        judge(run, des, out, 'special', special_class(label), label, 'direct', dict(workload='special', label=label))


def _systems(run, tier, seed, shard, deadline):
    """Library system blocks (floating point, fixed point, AXI adapters, UART pieces) wrapped in a Dut."""
    import py4hw
    from . import c03
    quick = tier == 'quick'
    jobs = shard_slice(c03.system_designs(), shard)
    for label, f in jobs:
        if time.time() > deadline or run.too_many:
            break
        if label in ('AsynchronousMemory', 'Latch'):
            continue      # stateful propagate blocks: excluded (DESIGN.md Appendix B)
        rnd = rng(seed, 'c01-system', label)
        hw = py4hw.HWSystem()
        try:
            with muted():
                obj = f(hw)            # the block itself is the generation root
                ins = [p.wire for p in obj.inPorts]
                outs = [p.wire for p in obj.outPorts]
                names = {p.wire.name: p.name for p in list(obj.inPorts) + list(obj.outPorts)}
                import py4hw.rtl_generation as rg
                top = rg.getVerilogModuleName(obj, noInstanceNumber=True)
        except Exception as e:
            run.count('system_build_failed')
            continue
        des = cosim.Design(hw, obj, ins, outs, 'system:' + label, meta=dict(port_names=names))
        seq = py4hw.VerilogGenerator(obj).anyClockableDescendant(obj)
        n = (60 if quick else 600) if not seq else (300 if quick else 3000)
        vecs = cosim.gen_control_vectors(des.ins, rnd, n) if seq else cosim.gen_vectors(des.ins, rnd, n)
        out = cosim.cosim(des, vecs, seq, top_name=top)
        judge(run, des, out, 'system', label.split('(')[0], label, 'direct', dict(workload='system', label=label))


def _random(run, tier, seed, shard, deadline):
    quick = tier == 'quick'
    n = 700 if quick else 40000
    idx = shard_slice(range(n), shard)
    for i in idx:
        if time.time() > deadline or run.too_many:
            break
        rnd = rng(seed, 'c01-random', i)
        g = dutgen.Gen(rnd, max_width=rnd.choice([8, 16, 16, 32]))
        plan = g.plan(n_nodes=rnd.randint(3, 24) if quick else rnd.randint(3, 40), depth=rnd.randint(0, 3))
        try:
            des = dutgen.instantiate(plan)
        except Exception as ex:
            run.count('random_build_failed')
            run.extra.setdefault('random_build_errors', [])
            if len(run.extra['random_build_errors']) < 5:
                run.extra['random_build_errors'].append(repr(ex)[:200])
            continue
        seq = des.meta['sequential']
        cyc = 16 if quick else 64
        vecs = cosim.gen_control_vectors(des.ins, rnd, cyc) if seq else cosim.gen_vectors(des.ins, rnd, cyc)
        out = cosim.cosim(des, vecs, seq)
        run.count('random_nodes', des.meta['nodes'])
        judge(run, des, out, 'random', 'random', None, 'plan', dict(workload='random', plan=plan, vectors=vecs if out.mismatch else None))


def replay(run, case):
    c = case['case']
    if c.get('workload') == 'random':
        des = dutgen.instantiate(c['plan'])
        out = cosim.cosim(des, c['vectors'], des.meta['sequential'])
    elif c.get('workload') == 'unit':
        e = catalog.by_name(c['block'])
        des = unit_design(e, dutgen._tup(c['cfg']), c['mode'])
        out = cosim.cosim(des, cosim.gen_vectors(des.ins, rng(1, 'replay'), 200, exhaustive_bits=11), False)
    else:
        print('replay of workload %s: re-run the check' % c.get('workload'))
        return 0
    print('replay:', des.label, out.status, out.mismatch)
    if out.mismatch:
        print('VIOLATION property=C01 replay=replayed')
        return 1
    return 0
