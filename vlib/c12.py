"""C12 -- number-format helpers are bit-exact and arithmetically exact (DESIGN.md section C12).

References: struct ('e', 'f', 'd'), fractions.Fraction, plain ints.  Nothing in the oracle calls a py4hw helper.

A *case* is one of
  pattern  (fmt, bit pattern)           -> every decode / encode / pack / unpack / convert helper on that pattern
  c2       (w, v)                       -> signed_to_c2 / c2_to_signed / signExtend
  arith    (operand a, operand b)       -> FPNum add / sub / mul / compare, judged as Fractions
  fxp      (iw, fw, x, y)               -> FixedPoint helper add / sub / mult on raw encodings
`judge(case)` runs the real helpers on one case and returns (evaluations, violations); run_check and replay share it.

Mechanism keys: '<fmt>_<value class>_<stage>' for the format helpers (e.g. hp_subnormal_decode, sp_negzero_encode),
'twos_complement', 'fpnum_<op>', 'fixedpoint_helper'.  The classifier fields say which function family failed and how
observed relates to expected (ratio, sign lost, raises ...), so a known-finding entry never matches a different failure.
"""
import itertools
import json
import math
import os
import signal
import struct
import subprocess
import sys
import time
from fractions import Fraction

from .common import muted, rng, shard_slice, sgn, stable_hash, run_dir, PYTHON, ROOT

LEVEL = 'exploration'
RULE = ('cases: (a) bit patterns -- all 2**16 half patterns exhaustively in both tiers; single/double: every exponent field x '
        'mantissa boundary set {0,1,2,2**k,2**p-2,2**p-1 (+2**k+-1, alternating bits in thorough)} x both signs + random; each '
        'pattern is pushed through every decode/encode/pack/unpack/convert helper and compared with struct; (b) two\'s '
        'complement: all (w,v) for w<=10, boundary values for w in {16,32,64,65}; (c) FPNum add/sub/mul/compare on pairs drawn '
        'from boundary patterns of all three formats, floats, raw (s,e,m,p) tuples and results of earlier operations, judged as '
        'Fractions; (d) FixedPoint helper on all formats (1,iw<=4,fw<=4): all operand pairs when w<=6 (quick) / all formats (thorough), '
        'boundary x boundary + random otherwise; (e) Python floats (doubles, mostly NOT singles) within +-1 single-ulp of every '
        'single-precision anchor (every exponent field x mantissa boundaries: zero, smallest/largest subnormal, smallest normal, powers of two, '
        'all-ones mantissas, largest finite, random) in eighths of an ulp incl. exact ties, nextafter neighbours of anchors and ties, both '
        'signs, plus random 52-bit doubles and doubles outside the single range -- compared with struct \'<f\'; (f) histories: a pool of 5 '
        'live FPNum objects (patterns of all formats, floats, raw tuples), 6..16 random operations add/sub/mul/div/compare/convert/to_float on '
        'pool members (also the same object on both sides; exact zeros in half of the pools; a quarter of the results replace a pool member; '
        'a third of the add/sub/mul results are rounded in place with reducePrecision / reducePrecisionWithRounding, the way the library\'s own '
        'flow does), after EVERY operation: the result vs Fractions, the result is not one of the live objects, and every pool object vs its '
        'snapshot (components, flags, rational, convert() bits).  (h) the library\'s reference-model flow r = a.op(b); r.reducePrecision[WithRounding](precision of the format); '
        'r.convert(fmt) with operands chosen so that rounding carries into the next binade (all-ones and near-all-ones mantissas at several exponents '
        'incl. the largest, addends of 1/4..3/2 ulp, both signs; products of all-ones mantissas), and objects set one step out of canonical form with '
        'set_semp -- convert() compared with the encoding of the value the object then denotes.  A reduced pass of (c), (f) and half patterns runs in a child interpreter with '
        'PYTHONOPTIMIZE=1 (asserts stripped).  evaluations = helper calls judged.  A case is non-trivial when it is not the '
        'all-zero pattern / value / operand pair; distinct by content (format, pattern | w, v | operand descriptors | format, x, y); in the thorough tier only the '
        'cases whose content hash is 0 mod 4 are registered, so distinct_nontrivial is a lower bound there (keeps the merged set small)')
SHARDS = {'quick': 1, 'thorough': 16}
TIMEOUT = {'quick': 600, 'thorough': 3000}
MIN_NONTRIVIAL = {'quick': 50000, 'thorough': 300000}

FM = {'hp': ('<e', '<H', 5, 10), 'sp': ('<f', '<I', 8, 23), 'dp': ('<d', '<Q', 11, 52)}
FMTS = ('hp', 'sp', 'dp')


# --------------------------------------------------------------------------- reference (struct / Fraction / ints only)

def fields(fmt, v):
    _, _, ew, mw = FM[fmt]
    return (v >> (ew + mw)) & 1, (v >> mw) & ((1 << ew) - 1), v & ((1 << mw) - 1)


def ref_float(fmt, v):
    """The platform's decoding of the pattern (exact in a double for all three formats)."""
    return struct.unpack(FM[fmt][0], struct.pack(FM[fmt][1], v))[0]


def ref_encode(fmt, x):
    """The platform's encoding of float x in fmt, or None when x is not exactly representable there."""
    if math.isnan(x):
        return None
    try:
        v = struct.unpack(FM[fmt][1], struct.pack(FM[fmt][0], x))[0]
    except OverflowError:
        return None
    back = ref_float(fmt, v)
    if back == x and (x != 0 or math.copysign(1, back) == math.copysign(1, x)):
        return v
    return None


def ref_value(fmt, v):
    """Exact rational denoted by a finite pattern (None for inf / NaN)."""
    _, _, ew, mw = FM[fmt]
    s, e, m = fields(fmt, v)
    bias = (1 << (ew - 1)) - 1
    if e == (1 << ew) - 1:
        return None
    if e == 0:
        r = Fraction(m, 1 << mw) * Fraction(2) ** (1 - bias)
    else:
        r = Fraction((1 << mw) | m, 1 << mw) * Fraction(2) ** (e - bias)
    return -r if s else r


def value_class(fmt, v):
    _, _, ew, mw = FM[fmt]
    s, e, m = fields(fmt, v)
    if e == (1 << ew) - 1:
        return 'inf' if m == 0 else 'nan'
    if e == 0:
        if m == 0:
            return 'negzero' if s else 'zero'
        return 'subnormal'
    return 'normal'


def same_float(a, b):
    if not isinstance(a, float) or not isinstance(b, float):
        return False
    if math.isnan(a) or math.isnan(b):
        return math.isnan(a) and math.isnan(b)
    return a == b and math.copysign(1, a) == math.copysign(1, b)


def relation(obs, exp):
    """How the observed number relates to the expected one -- the part of the classifier that keeps entries narrow."""
    try:
        if isinstance(obs, bool) or isinstance(exp, bool):
            return 'other'
        if isinstance(obs, (int, float, Fraction)) and isinstance(exp, (int, float, Fraction)):
            if isinstance(obs, float) and (math.isnan(obs) or math.isinf(obs)):
                return 'observed_nonfinite'
            if isinstance(exp, float) and (math.isnan(exp) or math.isinf(exp)):
                return 'expected_nonfinite'
            fo, fe = Fraction(obs), Fraction(exp)
            if fo == fe:
                return 'zero_sign' if fe == 0 else 'equal'
            if fe == 0 or fo == 0:
                return 'observed_zero' if fo == 0 else 'expected_zero'
            q = fo / fe
            if q == -1:
                return 'observed=-expected'
            aq = abs(q)
            for k in range(1, 9):
                if aq == Fraction(1, 1 << k):
                    return 'observed=%sexpected/%d' % ('-' if q < 0 else '', 1 << k)
                if aq == 1 << k:
                    return 'observed=%sexpected*%d' % ('-' if q < 0 else '', 1 << k)
            return 'other'
    except Exception:
        pass
    return 'other'


def pattern_relation(fmt, obs, exp):
    if not isinstance(obs, int) or isinstance(obs, bool):
        return 'not_an_int'
    _, _, ew, mw = FM[fmt]
    x = obs ^ exp
    if x == 1 << (ew + mw):
        return 'sign_bit_lost' if exp >> (ew + mw) else 'sign_bit_set'
    if obs >> (ew + mw + 1):
        return 'wider_than_format'
    so, eo, mo = fields(fmt, obs)
    se, ee, me = fields(fmt, exp)
    if (so, eo) == (se, ee):
        d = mo - me
        return 'mantissa_off_by_%d' % d if abs(d) <= 2 else 'mantissa_differs'
    if (so, mo) == (se, me):
        d = eo - ee
        return 'exponent_off_by_%d' % d if abs(d) <= 4 else 'exponent_differs'
    if so != se:
        return 'sign_and_more_differ'
    return 'exponent_and_mantissa_differ'


def V(key, fields_, expected, observed, what):
    return dict(key=key, fields=fields_, expected=expected, observed=observed, what=what)


def hx(v):
    return hex(v) if isinstance(v, int) and not isinstance(v, bool) else repr(v)


# --------------------------------------------------------------------------- (a) bit patterns

def _helpers():
    from py4hw.helper import FPNum, FloatingPointHelper, IntegerHelper, signExtend, FixedPoint
    return FPNum, FloatingPointHelper, IntegerHelper, signExtend, FixedPoint


def fpnum_value(n):
    """Exact rational an FPNum object denotes: s * (m/p) * 2**e (None for inf / NaN objects)."""
    if n.infinity or n.nan:
        return None
    s, e, m, p = n.components()
    if p == 0:
        return None
    return Fraction(s) * Fraction(m, p) * Fraction(2) ** e


def judge_pattern(case):
    FPNum, F, _, _, _ = _helpers()
    fmt = case['fmt']
    v = int(case['pattern'], 16) if isinstance(case['pattern'], str) else case['pattern']
    cls = value_class(fmt, v)
    ref = ref_float(fmt, v)
    fs = fields(fmt, v)
    ew, mw = FM[fmt][2], FM[fmt][3]
    out = []
    n = [0]

    def fail(stage, function, family, rel, expected, observed):
        out.append(V('%s_%s_%s' % (fmt, cls, stage),
                     dict(fmt=fmt, value_class=cls, stage=stage, function=function, family=family, relation=rel),
                     expected, observed,
                     '%s on %s pattern %s (%s): expected %s observed %s [%s]' % (function, fmt, hex(v), cls, hx(expected) if isinstance(expected, int) else repr(expected),
                                                                                hx(observed) if isinstance(observed, int) else repr(observed), rel)))

    def call(stage, function, family, fn):
        n[0] += 1
        try:
            with muted():
                return True, fn()
        except Exception as e:
            fail(stage, function, family, 'raises:' + type(e).__name__, None, repr(e)[:120])
            return False, None

    def expect_float(stage, function, family, fn, exp):
        ok, r = call(stage, function, family, fn)
        if ok and not same_float(r, exp):
            fail(stage, function, family, relation(r, exp) if isinstance(r, float) else 'not_a_float', exp, r)
            return False
        return ok

    def expect_pattern(stage, function, family, fn, exp, tf=None):
        ok, r = call(stage, function, family, fn)
        if ok and r != exp:
            fail(stage, function, family, pattern_relation(tf or fmt, r, exp), hex(exp), hx(r))
            return False
        return ok

    def expect_nan_pattern(stage, function, family, fn, tf):
        ok, r = call(stage, function, family, fn)
        if ok and not (isinstance(r, int) and 0 <= r < (1 << (1 + FM[tf][2] + FM[tf][3])) and math.isnan(ref_float(tf, r))):
            fail(stage, function, family, 'not_a_nan_pattern', 'any NaN pattern', hx(r))

    def expect_eq(stage, function, family, fn, exp):
        ok, r = call(stage, function, family, fn)
        if ok and (tuple(r) if isinstance(r, (tuple, list)) else r) != exp:
            rel = 'other'
            if isinstance(exp, tuple) and isinstance(r, (tuple, list)) and len(r) == len(exp) == 3:
                diff = [nm for nm, a, b in zip(('sign', 'exponent', 'mantissa'), r, exp) if a != b]
                if diff == ['sign'] and r[0] in (0, 1):
                    rel = 'sign_bit_lost' if exp[0] else 'sign_bit_set'
                else:
                    rel = 'parts_differ_in_' + '+'.join(diff)
            fail(stage, function, family, rel, exp, r)

    # ---- decode: FPNum(pattern, fmt)
    decode_ok = False
    ok, num = call('decode', 'FPNum(pattern,fmt)', 'FPNum.from_ieee754', lambda: FPNum(v, fmt))
    if ok:
        decode_ok = expect_float('decode', 'FPNum(pattern,fmt).to_float', 'FPNum.from_ieee754', num.to_float, ref)
        if decode_ok and cls not in ('inf', 'nan'):
            n[0] += 1
            val = fpnum_value(num)
            if val != ref_value(fmt, v):
                decode_ok = False
                fail('decode', 'FPNum(pattern,fmt).components', 'FPNum.from_ieee754', relation(val, ref_value(fmt, v)) if val is not None else 'flagged_nonfinite',
                     str(ref_value(fmt, v)), str(val))
            elif (num.s < 0) != bool(fs[0]):
                decode_ok = False
                fail('decode', 'FPNum(pattern,fmt).components', 'FPNum.from_ieee754', 'sign_field', -1 if fs[0] else 1, num.s)
        elif decode_ok:
            n[0] += 1
            if (cls == 'inf') != bool(num.infinity) or (cls == 'nan') != bool(num.nan):
                decode_ok = False
                fail('decode', 'FPNum(pattern,fmt).flags', 'FPNum.from_ieee754', 'special_flags', cls, dict(infinity=num.infinity, nan=num.nan))
    # ---- decode: FloatingPointHelper (single / double only)
    if fmt in ('sp', 'dp'):
        dec = F.ieee754_to_sp if fmt == 'sp' else F.ieee754_to_dp
        decp = F.ieee754_parts_to_sp if fmt == 'sp' else F.ieee754_parts_to_dp
        unp = F.unpack_ieee754_sp_parts if fmt == 'sp' else F.unpack_ieee754_dp_parts
        expect_float('decode', 'FloatingPointHelper.ieee754_to_' + fmt, 'FloatingPointHelper.ieee754_to', lambda: dec(v), ref)
        expect_eq('unpack', 'FloatingPointHelper.unpack_ieee754_%s_parts' % fmt, 'FloatingPointHelper.unpack', lambda: unp(v), fs)
        if cls not in ('inf', 'nan'):
            expect_float('decode', 'FloatingPointHelper.ieee754_parts_to_' + fmt, 'FloatingPointHelper.ieee754_parts_to', lambda: decp(*fs), ref)
        if fmt == 'sp':
            expect_pattern('pack', 'FloatingPointHelper.pack_ieee754_sp_parts', 'FloatingPointHelper.pack', lambda: F.pack_ieee754_sp_parts(*fs), v)
            expect_pattern('pack', 'FloatingPointHelper.ieee754_sp_neg', 'FloatingPointHelper.pack', lambda: F.ieee754_sp_neg(v), v ^ (1 << 31))
    # ---- pack / unpack of FPNum
    unpn = getattr(FPNum, 'unpack_ieee754_%s_parts' % fmt)
    packn = getattr(FPNum, 'pack_ieee754_%s_parts' % fmt)
    expect_eq('unpack', 'FPNum.unpack_ieee754_%s_parts' % fmt, 'FPNum.unpack', lambda: unpn(v), fs)
    expect_pattern('pack', 'FPNum.pack_ieee754_%s_parts' % fmt, 'FPNum.pack', lambda: packn(*fs), v)

    if cls == 'nan':
        # NaN payloads excepted: only "is NaN" is compared
        if fmt in ('sp', 'dp'):
            enc = F.sp_to_ieee754 if fmt == 'sp' else F.dp_to_ieee754
            expect_nan_pattern('encode', 'FloatingPointHelper.%s_to_ieee754' % fmt, 'FloatingPointHelper.to_ieee754', lambda: enc(ref), fmt)
        for tf in FMTS:
            expect_nan_pattern('convert', 'FPNum(float).convert', 'FPNum.convert', lambda: FPNum(ref).convert(tf), tf)
            if decode_ok:
                expect_nan_pattern('convert', 'FPNum(pattern,fmt).convert', 'FPNum.convert', lambda: FPNum(v, fmt).convert(tf), tf)
        return n[0], out

    # ---- encode: FloatingPointHelper
    if fmt in ('sp', 'dp'):
        enc = F.sp_to_ieee754 if fmt == 'sp' else F.dp_to_ieee754
        encp = F.sp_to_ieee754_parts if fmt == 'sp' else F.dp_to_ieee754_parts
        expect_pattern('encode', 'FloatingPointHelper.%s_to_ieee754' % fmt, 'FloatingPointHelper.to_ieee754', lambda: enc(ref), v)
        expect_eq('encode', 'FloatingPointHelper.%s_to_ieee754_parts' % fmt, 'FloatingPointHelper.to_ieee754', lambda: encp(ref), fs)
    if cls != 'inf':
        # fp_to_parts: v == (-1)**s * m * 2**e with 1 <= m < 2 (value identity only; the sign of a zero is not demanded here)
        ok, r = call('decompose', 'FloatingPointHelper.fp_to_parts', 'FloatingPointHelper.fp_to_parts', lambda: F.fp_to_parts(ref))
        if ok:
            try:
                s_, e_, m_ = r
                good = Fraction(-1) ** s_ * Fraction(m_) * Fraction(2) ** e_ == Fraction(ref) and (ref == 0 or 1 <= m_ < 2)
            except Exception:
                good = False
            if not good:
                fail('decompose', 'FloatingPointHelper.fp_to_parts', 'FloatingPointHelper.fp_to_parts', 'value_identity', repr(ref), r)
    # ---- encode / convert: FPNum
    expect_pattern('encode', 'FPNum(float).convert', 'FPNum.convert', lambda: FPNum(ref).convert(fmt), v)
    if decode_ok:
        # the round trip pattern -> FPNum -> pattern; judged only when the decode stage was right
        # (a wrong decode is reported once, as a decode failure)
        expect_pattern('roundtrip', 'FPNum(pattern,fmt).convert', 'FPNum.convert', lambda: FPNum(v, fmt).convert(fmt), v)
    for tf in FMTS:
        if tf == fmt:
            continue
        tv = ref_encode(tf, ref)
        if tv is None:
            continue        # not representable in the target: outside "every representable value"
        expect_pattern('convert', 'FPNum(float).convert->' + tf, 'FPNum.convert', lambda: FPNum(ref).convert(tf), tv, tf)
        if decode_ok:
            expect_pattern('convert', 'FPNum(pattern,fmt).convert->' + tf, 'FPNum.convert', lambda: FPNum(v, fmt).convert(tf), tv, tf)
    return n[0], out


def mantissa_set(mw, tier, rnd, nrandom):
    s = {0, 1, 2, 3, (1 << mw) - 2, (1 << mw) - 1, (1 << (mw - 1)), (1 << (mw - 1)) - 1, (1 << (mw - 1)) + 1}
    for k in range(mw):
        s.add(1 << k)
        if tier == 'thorough':
            s.add(((1 << k) - 1) & ((1 << mw) - 1))
            s.add(((1 << k) + 1) & ((1 << mw) - 1))
            s.add(((1 << mw) - 1) ^ (1 << k))
    if tier == 'thorough':
        s.add(0x5555555555555555 & ((1 << mw) - 1))
        s.add(0xAAAAAAAAAAAAAAAA & ((1 << mw) - 1))
    out = sorted(s)
    out += [rnd.getrandbits(mw) for _ in range(nrandom)]
    return out


def pattern_cases(fmt, tier, seed, shard):
    """Generator of patterns for one format, already restricted to this shard."""
    _, _, ew, mw = FM[fmt]
    i, nsh = shard if shard else (0, 1)
    if fmt == 'hp':
        for v in range(i, 1 << 16, nsh):
            yield v
        return
    rnd = rng(seed, 'C12', 'patterns', fmt, shard)
    if fmt == 'sp':
        nrandom = 12 if tier == 'quick' else 3000
        full = True
    else:
        nrandom = 2 if tier == 'quick' else 200
        full = tier == 'thorough'
    k = 0
    for e in range(1 << ew):
        edge = e < 4 or e > (1 << ew) - 5 or abs(e - ((1 << (ew - 1)) - 1)) < 3
        if full or edge:
            ms = mantissa_set(mw, tier, rnd, nrandom)
        else:
            # double, quick tier: the reduced boundary set on interior exponents (the loops in the helpers are O(|exponent|))
            ms = [0, 1, 1 << (mw - 1), (1 << mw) - 2, (1 << mw) - 1] + [1 << rnd.randrange(mw)] + [rnd.getrandbits(mw) for _ in range(nrandom)]
        for m in ms:
            for s in (0, 1):
                k += 1
                if k % nsh == i:
                    yield (s << (ew + mw)) | (e << mw) | m
    # uniformly random patterns (random exponent too)
    for _ in range((2000 if fmt == 'sp' else 300) if tier == 'quick' else (40000 if fmt == 'sp' else 6000)):
        yield rnd.getrandbits(1 + ew + mw)


# --------------------------------------------------------------------------- (b) two's complement

def judge_c2(case):
    _, _, I, signExtend, _ = _helpers()
    w, v = case['w'], case['v']
    v = int(v, 16) if isinstance(v, str) else v
    out = []
    n = 0
    m = (1 << w) - 1
    wc = 'w<=10' if w <= 10 else 'w=%d' % w

    def fail(function, rel, exp, obs, args):
        out.append(V('twos_complement', dict(function=function, width_class=wc, relation=rel), exp, obs,
                     '%s%r: expected %s observed %s' % (function, args, hx(exp), hx(obs))))

    def run(function, fn, exp, args):
        try:
            r = fn()
        except Exception as e:
            fail(function, 'raises:' + type(e).__name__, exp, repr(e)[:100], args)
            return
        if r != exp:
            rel = 'other'
            if isinstance(r, int) and not isinstance(r, bool):
                d = r - exp
                rel = 'off_by_2**w' if abs(d) == 1 << w else ('same_mod_2**w' if d % (1 << w) == 0 else ('off_by_%d' % d if abs(d) <= 2 else 'other'))
            fail(function, rel, exp, r, args)

    # v is taken as a signed value reduced into range, and as a raw encoding
    raw = v & m
    signed = sgn(raw, w)
    run('IntegerHelper.signed_to_c2', lambda: I.signed_to_c2(signed, w), raw, (signed, w)); n += 1
    run('IntegerHelper.c2_to_signed', lambda: I.c2_to_signed(raw, w), signed, (raw, w)); n += 1
    # round trips
    run('IntegerHelper.c2_to_signed(signed_to_c2)', lambda: I.c2_to_signed(I.signed_to_c2(signed, w), w), signed, (signed, w)); n += 1
    run('IntegerHelper.signed_to_c2(c2_to_signed)', lambda: I.signed_to_c2(I.c2_to_signed(raw, w), w), raw, (raw, w)); n += 1
    # all values: out-of-range signed values wrap modulo 2**w, extra high bits of an encoding are ignored
    if case.get('wide') is not None:
        big = case['wide']
        big = int(big, 16) if isinstance(big, str) else big
        run('IntegerHelper.signed_to_c2', lambda: I.signed_to_c2(big, w), big % (1 << w), (big, w)); n += 1
        run('IntegerHelper.c2_to_signed', lambda: I.c2_to_signed(big, w), sgn(big & m, w), (big, w)); n += 1
    for nw in case.get('nws', ()):
        run('signExtend', lambda: signExtend(raw, w, nw), signed % (1 << nw), (raw, w, nw)); n += 1
    return n, out


def c2_cases(tier, seed, shard):
    rnd = rng(seed, 'C12', 'c2', shard)
    cases = []
    for w in range(1, 11):
        for v in range(1 << w):
            cases.append(dict(kind='c2', w=w, v=v, wide=rnd.getrandbits(w + 8) - (1 << (w + 7)), nws=[w, w + 1, w + 3, 2 * w, 64]))
    for w in (16, 32, 64, 65) + ((12, 24, 31, 33, 63, 128) if tier == 'thorough' else ()):
        vals = {0, 1, 2, (1 << w) - 1, (1 << w) - 2, 1 << (w - 1), (1 << (w - 1)) - 1, (1 << (w - 1)) + 1, 1 << (w - 2), 1 << (w // 2),
                0x5555555555555555555555555555555555 & ((1 << w) - 1), 0xAAAAAAAAAAAAAAAAAAAAAAAAAAAAAAAAAA & ((1 << w) - 1)}
        for k in range(w):
            vals.add(1 << k)
            vals.add((1 << k) - 1)
            vals.add(((1 << w) - 1) ^ ((1 << k) - 1))
        vals |= {rnd.getrandbits(w) for _ in range(100 if tier == 'quick' else 4000)}
        for v in sorted(vals):
            cases.append(dict(kind='c2', w=w, v=v, wide=rnd.getrandbits(w + 8) - (1 << (w + 7)), nws=[w, w + 1, w + 7, 2 * w]))
    return shard_slice(cases, shard)


# --------------------------------------------------------------------------- (c) FPNum arithmetic

def build_operand(desc):
    """desc: ['pat', fmt, pattern] | ['float', hexfloat] | ['semp', s, e, m, p] | ['op', name, descA, descB].
    Returns (FPNum object, exact Fraction it is meant to denote)."""
    FPNum = _helpers()[0]
    kind = desc[0]
    if kind == 'pat':
        v = int(desc[2], 16) if isinstance(desc[2], str) else desc[2]
        return FPNum(v, desc[1]), ref_value(desc[1], v)
    if kind == 'float':
        x = float.fromhex(desc[1])
        return FPNum(x), Fraction(x)
    if kind == 'semp':
        s, e, m, p = (int(t, 16) if isinstance(t, str) else t for t in desc[1:5])
        return FPNum(s, e, m, p), Fraction(s) * Fraction(m, p) * Fraction(2) ** e
    if kind == 'op':
        a, xa = build_operand(desc[2])
        b, xb = build_operand(desc[3])
        r = getattr(a, desc[1])(b)
        return r, {'add': xa + xb, 'sub': xa - xb, 'mul': xa * xb}[desc[1]]
    raise ValueError(desc)


def _sign(x):
    return (x > 0) - (x < 0)


def judge_arith(case):
    out = []
    n = 0
    try:
        with muted():
            A, xa = build_operand(case['a'])
            B, xb = build_operand(case['b'])
    except Exception as e:
        return 1, [V('fpnum_construct', dict(function='FPNum constructor', relation='raises:' + type(e).__name__), None, repr(e)[:120],
                     'building operands %r, %r raises %r' % (case['a'], case['b'], e))]
    va, vb = fpnum_value(A), fpnum_value(B)
    if va != xa or vb != xb:
        # operand construction is judged in the pattern section (or, for results of operations, where they were produced);
        # arithmetic is judged on operands that denote what they were meant to denote
        return 0, []

    def zclass(x, y):
        if x == 0 and y == 0:
            return 'both_zero'
        if x == 0 or y == 0:
            return 'one_zero'
        return 'nonzero'

    for name, exp in (('add', xa + xb), ('sub', xa - xb), ('mul', xa * xb)):
        n += 1
        try:
            with muted():
                r = getattr(A, name)(B)
            got = fpnum_value(r)
        except Exception as e:
            out.append(V('fpnum_' + name, dict(function='FPNum.' + name, operands=zclass(xa, xb), relation='raises:' + type(e).__name__), str(exp), repr(e)[:120],
                         'FPNum.%s(%r, %r) raises %r' % (name, case['a'], case['b'], e)))
            continue
        if got != exp:
            rel = 'flagged_nonfinite' if got is None else relation(got, exp)
            if got is not None and exp != 0 and got != 0 and rel == 'other':
                # magnitude relation for cancellation-type errors
                rel = 'sign_wrong' if _sign(got) != _sign(exp) else 'other'
            out.append(V('fpnum_' + name, dict(function='FPNum.' + name, operands=zclass(xa, xb), relation=rel), str(exp), str(got),
                         'FPNum.%s(%r, %r): exact %s, returned %s (s,e,m,p)=%r' % (name, case['a'], case['b'], exp, got, r.components())))
        elif fpnum_value(A) != xa or fpnum_value(B) != xb:
            out.append(V('fpnum_' + name, dict(function='FPNum.' + name, operands=zclass(xa, xb), relation='mutates_operand'), None, None,
                         'FPNum.%s(%r, %r) changed an operand' % (name, case['a'], case['b'])))
    n += 1
    exp = _sign(xa - xb)
    try:
        with muted():
            c = A.compare(B)
    except Exception as e:
        out.append(V('fpnum_compare', dict(function='FPNum.compare', operands=zclass(xa, xb), relation='raises:' + type(e).__name__), exp, repr(e)[:120],
                     'FPNum.compare(%r, %r) raises %r' % (case['a'], case['b'], e)))
        return n, out
    if c != exp:
        if xa == 0 and xb == 0 and A.s != B.s and c == _sign(A.s - B.s):
            rel = 'zeros_ordered_by_sign_bit'
        elif c == -exp:
            rel = 'inverted'
        elif c == 0:
            rel = 'reports_equal'
        else:
            rel = 'other'
        out.append(V('fpnum_compare', dict(function='FPNum.compare', operands=zclass(xa, xb), relation=rel), exp, c,
                     'FPNum.compare(%r, %r): values %s vs %s, expected %d returned %r [%s]' % (case['a'], case['b'], xa, xb, exp, c, rel)))
    return n, out


def arith_operands(tier, rnd):
    ops = []
    for fmt in FMTS:
        _, _, ew, mw = FM[fmt]
        bias = (1 << (ew - 1)) - 1
        es = [0, 1, 2, bias - 1, bias, bias + 1, (1 << ew) - 3, (1 << ew) - 2] + [rnd.randrange(1, (1 << ew) - 1) for _ in range(3)]
        for e in es:
            for m in [0, 1, 1 << (mw - 1), (1 << mw) - 2, (1 << mw) - 1, rnd.getrandbits(mw)]:
                for s in (0, 1):
                    ops.append(['pat', fmt, hex((s << (ew + mw)) | (e << mw) | m)])
    for x in [0.0, -0.0, 1.0, -1.0, 0.5, 1.5, -2.75, 3.0, 1e300, -1e-300, 5e-324, -5e-324, 1.7976931348623157e308, 2.2250738585072014e-308, 0.1, -0.3]:
        ops.append(['float', float(x).hex()])
    for _ in range(40):
        ops.append(['float', rnd.uniform(-100, 100).hex()])
        ops.append(['float', math.ldexp(rnd.random() - 0.5, rnd.randint(-1000, 1000)).hex()])
    for _ in range(60):
        pk = rnd.randint(0, 70)
        ops.append(['semp', rnd.choice((1, -1)), rnd.randint(-1100, 1100), hex(rnd.getrandbits(rnd.randint(0, 90))), hex(1 << pk)])
    return ops


def arith_cases(tier, seed, shard):
    rnd = rng(seed, 'C12', 'arith', shard)
    ops = arith_operands(tier, rnd)
    npairs = 9000 if tier == 'quick' else 300000
    # structured pairs: same operand (exact cancellation, equal compare), negated operand, neighbours, then random pairs
    k = 0
    for a in ops:
        yield dict(kind='arith', a=a, b=a)
        if a[0] == 'pat':
            fmt = a[1]
            v = int(a[2], 16)
            top = 1 << (FM[fmt][2] + FM[fmt][3])
            yield dict(kind='arith', a=a, b=['pat', fmt, hex(v ^ top)])           # x, -x : equal magnitudes, opposite sign
            cls = value_class(fmt, v)
            if cls in ('normal', 'subnormal', 'zero', 'negzero') and value_class(fmt, v + 1) in ('normal', 'subnormal'):
                yield dict(kind='arith', a=a, b=['pat', fmt, hex(v + 1)])         # neighbours: 1-ulp difference
                yield dict(kind='arith', a=['pat', fmt, hex((v + 1) ^ top)], b=a)
    zeros = [['pat', f, hex(s << (FM[f][2] + FM[f][3]))] for f in FMTS for s in (0, 1)] + [['float', (0.0).hex()], ['float', (-0.0).hex()]]
    for a in zeros:
        for b in zeros:
            yield dict(kind='arith', a=a, b=b)
    for _ in range(npairs):
        a, b = rnd.choice(ops), rnd.choice(ops)
        r = rnd.random()
        if r < 0.15:
            # an operand that is itself the result of an operation
            a = ['op', rnd.choice(('add', 'sub', 'mul')), a, rnd.choice(ops)]
        elif r < 0.2:
            b = ['op', rnd.choice(('add', 'sub', 'mul')), rnd.choice(ops), b]
        yield dict(kind='arith', a=a, b=b)


CLOSE_WIDE_CLASSES = ('midpoint_centred', 'random_wide_centre')


def close_wide_cases(tier, seed, shard, stat=None):
    """Compare workload: pairs of wide-mantissa FPNum (100..200 significant bits) that are UNEQUAL but agree in their leading 53..W-1 bits:
    centre +- j * 2**k units of the last place for k over a geometric range, centres on the midpoint of two adjacent doubles (even and odd
    neighbours) and on random wide values; each operand in its own representation (precision p = 2**q and exponent e chosen independently,
    trailing zero bits in the mantissa, or built as a sum double + half-ulp + tiny with add), both signs, both orders, random binade."""
    rnd = rng(seed, 'C12', 'close_wide', None)
    out = []

    def semp(sg, M, W, ex):
        # value = sg * M * 2**(ex - (W-1)); the representation is free: mantissa M << t, p = 2**q, e = ex - (W-1) - t + q
        t = rnd.choice((0, 0, 1, 7, rnd.randint(0, 40)))
        q = rnd.choice((0, W - 1, W - 1 + t, rnd.randint(0, W + 40)))
        return ['semp', sg, ex - (W - 1) - t + q, hex(M << t), hex(1 << q)]

    def summed(sg, hi, mid_bit, j, dj, W, ex):
        # the same value as a sum built with add: double + half ulp + signed tiny part
        d = ['float', math.ldexp(float(sg * hi), ex - 52).hex()]
        parts = d
        if mid_bit:
            parts = ['op', 'add', parts, ['semp', sg, ex - 53, hex(1), hex(1)]]
        if j:
            parts = ['op', 'add', parts, ['semp', sg * (1 if j > 0 else -1), ex - (W - 1) + dj, hex(abs(j)), hex(1)]]
        return parts

    widths = (100, 120, 150, 200) if tier == 'quick' else (94, 100, 107, 120, 128, 150, 177, 200, 260)
    ncentre = 3 if tier == 'quick' else 12
    for W in widths:
        centres = []
        for r in [0, 1, (1 << 52) - 1] + [rnd.getrandbits(52) for _ in range(ncentre)]:
            hi = (1 << 52) | r
            centres.append(('midpoint_centred', ((hi << 1) | 1) << (W - 54), hi))
        for _ in range(ncentre + 2):
            centres.append(('random_wide_centre', (1 << (W - 1)) | rnd.getrandbits(W - 1), None))
        ks = sorted({0, 1, 2, 3, W - 56, W - 55} | {int(1.6 ** i) for i in range(1, 12) if int(1.6 ** i) < W - 55})
        for cls, M0, hi in centres:
            for k in ks:
                j1, j2 = rnd.choice((1, 1, 3, rnd.randint(1, 48))), rnd.choice((1, 2, 5, rnd.randint(1, 48)))
                for da, db in ((j1, 0), (0, -j1), (j1, -j2), (-j1, -j1 - j2), (j1 + j2, j1)):
                    sg = rnd.choice((1, -1))
                    ex = rnd.choice((0, 0, 1, -1, rnd.randint(-900, 900)))
                    Ma, Mb = M0 + (da << k), M0 + (db << k)
                    if hi is not None and rnd.random() < 0.4:
                        a = summed(sg, hi, 1, da, k, W, ex)
                    else:
                        a = semp(sg, Ma, W, ex)
                    if hi is not None and rnd.random() < 0.4:
                        b = summed(sg, hi, 1, db, k, W, ex)
                    else:
                        b = semp(sg, Mb, W, ex)
                    if rnd.random() < 0.5:
                        a, b = b, a
                    out.append(dict(kind='arith', a=a, b=b, cls=cls, agree_bits=W - (abs(da - db) << k).bit_length()))
    for c in shard_slice(out, shard):
        if stat is not None:
            stat[c['cls']] = stat.get(c['cls'], 0) + 1
            g = 'pairs_agreeing_in_%s_leading_bits' % ('53..79' if c['agree_bits'] < 80 else '80..119' if c['agree_bits'] < 120 else '120+')
            stat[g] = stat.get(g, 0) + 1
            if c['a'][0] == 'op' or c['b'][0] == 'op':
                stat['pairs_with_an_operand_built_by_add'] = stat.get('pairs_with_an_operand_built_by_add', 0) + 1
        yield c


def desc_is_zero(d):
    if d[0] == 'pat':
        v = int(d[2], 16)
        return v & ((1 << (FM[d[1]][2] + FM[d[1]][3])) - 1) == 0
    if d[0] == 'float':
        return float.fromhex(d[1]) == 0
    if d[0] == 'semp':
        return int(d[3], 16) == 0 if isinstance(d[3], str) else d[3] == 0
    return False


# --------------------------------------------------------------------------- (d) FixedPoint helper

def fxp_operand(FixedPoint, iw, fw, raw):
    """An operand with the given raw encoding, built without going through the integer constructor path twice:
    fromRawValue is the documented way; it is what is judged as 'construct'."""
    return FixedPoint.fromRawValue(1, iw, fw, raw)


def judge_fxp(case):
    FixedPoint = _helpers()[4]
    iw, fw, x, y = case['iw'], case['fw'], case['x'], case['y']
    w = 1 + iw + fw
    m = (1 << w) - 1
    fc = 'int_bits=0' if iw == 0 else 'int_bits>=1'
    out = []
    n = 0

    def fail(function, rel, exp, obs):
        out.append(V('fixedpoint_helper', dict(function=function, format_class=fc, relation=rel), exp, obs,
                     'FixedPoint(1,%d,%d) %s raw %d, %d: expected %r observed %r [%s]' % (iw, fw, function, x, y, exp, obs, rel)))

    try:
        n += 1
        with muted():
            A = fxp_operand(FixedPoint, iw, fw, x)
            B = fxp_operand(FixedPoint, iw, fw, y)
    except Exception as e:
        fail('fromRawValue', 'raises:' + type(e).__name__, 'an object with raw value %d' % x, repr(e)[:100])
        # is it only the constructor?  build the operands through the float path and go on judging the arithmetic
        try:
            with muted():
                A = FixedPoint(1, iw, fw, 0.0)
                B = FixedPoint(1, iw, fw, 0.0)
            A.v, B.v = x, y
        except Exception:
            return n, out
    sx, sy = sgn(x, w), sgn(y, w)
    for name, exp in (('add', (x + y) & m), ('sub', (x - y) & m), ('mult', ((sx * sy) >> fw) & m)):   # >> on Python ints is floor
        n += 1
        try:
            with muted():
                r = getattr(A, name)(B)
            got = r.v
        except Exception as e:
            fail(name, 'raises:' + type(e).__name__, exp, repr(e)[:100])
            continue
        if got != exp:
            rel = 'other'
            if isinstance(got, int):
                if name == 'mult':
                    alts = {'unsigned_product': ((x * y) >> fw) & m, 'round_to_zero': (int(Fraction(sx * sy, 1 << fw))) & m,
                            'no_rescale': (sx * sy) & m, 'shift_by_iw': ((sx * sy) >> iw) & m}
                    rel = next((k for k, a in alts.items() if a == got), 'other')
                elif got & m == exp:
                    rel = 'not_reduced_mod_2**w'
            fail(name, rel, exp, got)
        elif (r.sw, r.iw, r.fw) != (1, iw, fw):
            fail(name, 'result_format', (1, iw, fw), (r.sw, r.iw, r.fw))
        elif (A.v, B.v) != (x, y):
            fail(name, 'mutates_operand', (x, y), (A.v, B.v))
    return n, out


def fxp_formats(tier):
    return [(iw, fw) for iw in range(0, 5) for fw in range(0, 5) if iw + fw >= 1]


def fxp_cases(tier, seed, shard):
    rnd = rng(seed, 'C12', 'fxp', shard)
    exh = 6 if tier == 'quick' else 9
    i, nsh = shard if shard else (0, 1)
    k = 0
    for iw, fw in fxp_formats(tier):
        w = 1 + iw + fw
        if w <= exh:
            pairs = itertools.product(range(1 << w), repeat=2)
        else:
            b = sorted({0, 1, 2, (1 << w) - 1, (1 << w) - 2, 1 << (w - 1), (1 << (w - 1)) - 1, (1 << (w - 1)) + 1, 1 << fw, (1 << fw) - 1,
                        (1 << fw) + 1 if fw else 3, ((1 << w) - (1 << fw)) & ((1 << w) - 1)} | {rnd.getrandbits(w) for _ in range(10 if tier == 'quick' else 40)})
            pairs = itertools.chain(itertools.product(b, repeat=2),
                                    ((rnd.getrandbits(w), rnd.getrandbits(w)) for _ in range(300 if tier == 'quick' else 6000)))
        for x, y in pairs:
            k += 1
            if k % nsh == i:
                yield dict(kind='fxp', iw=iw, fw=fw, x=x, y=y)


# --------------------------------------------------------------------------- driver

# --------------------------------------------------------------------------- (e) Python floats around single-precision boundaries

def platform_sp(x):
    """The platform's single-precision encoding of a double (round to nearest even); struct refuses to round a finite
    value to infinity, IEEE-754 does."""
    try:
        return struct.unpack('<I', struct.pack('<f', x))[0]
    except OverflowError:
        return 0xFF800000 if x < 0 else 0x7F800000


def judge_float(case):
    """A Python float that is in general NOT a single: FloatingPointHelper.sp_to_ieee754(_parts) must round it the way the
    platform does; as a double it is always representable, so dp_to_ieee754 / FPNum(x) / convert('dp') must be exact."""
    FPNum, F, _, _, _ = _helpers()
    x = float.fromhex(case['x']) if isinstance(case['x'], str) else case['x']
    out = []
    n = [0]
    exp = platform_sp(x)
    cls = value_class('sp', exp)
    back = ref_float('sp', exp)
    if back == x:
        inp = 'exactly_a_single'
    elif not math.isinf(back) and abs(Fraction(x) - Fraction(back)) * 2 == Fraction(ulp_sp(exp)):
        inp = 'exact_tie_between_two_singles'
    else:
        inp = 'between_two_singles'

    def fail(fmt, stage, function, family, rel, expected, observed):
        out.append(V('%s_%s_%s' % (fmt, cls if fmt == 'sp' else value_class('dp', struct.unpack('<Q', struct.pack('<d', x))[0]), stage),
                     dict(fmt=fmt, value_class=cls, stage=stage, function=function, family=family, relation=rel, input=inp),
                     expected, observed, '%s(%r = %s) [%s]: expected %s observed %s [%s]' % (function, x, x.hex(), inp, expected, observed, rel)))

    def call(fmt, stage, function, family, fn):
        n[0] += 1
        try:
            with muted():
                return True, fn()
        except Exception as e:
            fail(fmt, stage, function, family, 'raises:' + type(e).__name__, None, repr(e)[:120])
            return False, None

    ok, r = call('sp', 'round', 'FloatingPointHelper.sp_to_ieee754', 'FloatingPointHelper.to_ieee754', lambda: F.sp_to_ieee754(x))
    if ok and r != exp:
        fail('sp', 'round', 'FloatingPointHelper.sp_to_ieee754', 'FloatingPointHelper.to_ieee754', pattern_relation('sp', r, exp), hex(exp), hx(r))
    ok, r = call('sp', 'round', 'FloatingPointHelper.sp_to_ieee754_parts', 'FloatingPointHelper.to_ieee754', lambda: F.sp_to_ieee754_parts(x))
    if ok:
        # the parts must denote the platform's word: s | e<<23 | m taken as an integer sum (a mantissa of 2**23 with e = 0
        # is the smallest normal -- the carry of a subnormal that rounds up)
        try:
            s_, e_, m_ = r
            word = (s_ << 31) + (e_ << 23) + m_
        except Exception:
            word = None
        if word != exp:
            fail('sp', 'round', 'FloatingPointHelper.sp_to_ieee754_parts', 'FloatingPointHelper.to_ieee754',
                 pattern_relation('sp', word, exp) if word is not None else 'not_three_ints', fields('sp', exp), r)
    # as a double the value is exactly representable
    dpat = struct.unpack('<Q', struct.pack('<d', x))[0]
    ok, r = call('dp', 'encode', 'FloatingPointHelper.dp_to_ieee754', 'FloatingPointHelper.to_ieee754', lambda: F.dp_to_ieee754(x))
    if ok and r != dpat:
        fail('dp', 'encode', 'FloatingPointHelper.dp_to_ieee754', 'FloatingPointHelper.to_ieee754', pattern_relation('dp', r, dpat), hex(dpat), hx(r))
    ok, num = call('dp', 'decode', 'FPNum(float)', 'FPNum.convert_float_to_semp', lambda: FPNum(x))
    if ok:
        n[0] += 1
        val = fpnum_value(num)
        if val != Fraction(x):
            fail('dp', 'decode', 'FPNum(float).components', 'FPNum.convert_float_to_semp', relation(val, Fraction(x)) if val is not None else 'flagged_nonfinite',
                 str(Fraction(x)), str(val))
        else:
            ok, r = call('dp', 'encode', 'FPNum(float).convert', 'FPNum.convert', lambda: num.convert('dp'))
            if ok and r != dpat:
                fail('dp', 'encode', 'FPNum(float).convert', 'FPNum.convert', pattern_relation('dp', r, dpat), hex(dpat), hx(r))
    return n[0], out


def ulp_sp(v):
    """Spacing of the singles in the binade of the finite pattern v, as a Fraction."""
    e = (v >> 23) & 0xFF
    return Fraction(2) ** (max(e, 1) - 150)


def float_cases(tier, seed, shard):
    """Doubles in the +-1 ulp neighbourhood of single-precision anchors: eighths of an ulp on both sides (exact ties included),
    the nextafter neighbours of every tie and of the anchor itself, both signs.  Anchors: every exponent field with the
    mantissa boundary patterns (so: zero, smallest/largest subnormal, smallest normal, every power of two, every all-ones
    mantissa, largest finite) plus random patterns; then doubles far outside the single range."""
    rnd = rng(seed, 'C12', 'floats', shard)
    i, nsh = shard if shard else (0, 1)
    quick = tier == 'quick'
    k = 0
    eighths = [Fraction(j, 8) for j in range(1, 9)]
    for e in range(0, 255):
        edge = e < 3 or e > 251 or 125 <= e <= 129
        ms = [0, 1, 0x7FFFFF]
        if edge or not quick:
            ms += [2, 0x400000, 0x3FFFFF, 0x7FFFFE]
        ms += [rnd.getrandbits(23) for _ in range(1 if quick else 6)]
        for m in ms:
            k += 1
            if k % nsh != i:
                continue
            p = (e << 23) | m
            v = ref_value('sp', p)
            up = ulp_sp(p)
            dn = ulp_sp(p - 1) if p > 0 else up            # below a power of two the singles are twice as dense
            xs = {v}
            for q in eighths:
                xs.add(v + q * up)
                xs.add(v - q * dn)
            fl = set()
            for t in xs:
                f = float(t)                                  # exact: at most 27 significant bits
                fl.add(f)
            for t in (v, v + up / 2, v - dn / 2, v + up, v - dn):
                f = float(t)
                fl.add(math.nextafter(f, math.inf))
                fl.add(math.nextafter(f, -math.inf))
            for f in sorted(fl):
                for sg in (1.0, -1.0):
                    yield dict(kind='float', x=(sg * f).hex())
    if i == 0:
        far = [5e-324, 2.0 ** -200, 2.0 ** -151, 2.0 ** -150, 2.0 ** -149, 2.0 ** 127, 2.0 ** 128, 2.0 ** 129, 1e300, 1.7976931348623157e308,
               3.4028234663852886e38, 3.4028235677973366e38, 3.4028235677973362e38, 3.402823567797337e38, 0.1, 1 / 3, math.pi, 1e-40, 1e-45, 7e-46]
        for f in far:
            for sg in (1.0, -1.0):
                yield dict(kind='float', x=(sg * f).hex())
    for _ in range(3000 if quick else 20000):
        # random doubles: full 52-bit mantissa, exponent over the single range and a little beyond
        f = math.ldexp(1 + rnd.getrandbits(52) / (1 << 52), rnd.randint(-160, 130))
        yield dict(kind='float', x=(f if rnd.getrandbits(1) else -f).hex())


# --------------------------------------------------------------------------- (f) histories on live objects

HIST_FMT = {'pat': None, 'float': 'dp'}


def _snapshot(n):
    return (n.s, n.e, n.m, n.p, bool(n.infinity), bool(n.nan))


def _short(snap):
    """(s, e, m, p, inf, nan) with wide integers shown as hex (p additionally as 2**k when it is a power of two)."""
    s_, e_, m_, p_, i_, n_ = snap
    ps = '2**%d' % (p_.bit_length() - 1) if isinstance(p_, int) and p_ > 0 and p_ & (p_ - 1) == 0 else hx(p_)
    return 's=%r e=%r m=%s p=%s%s%s' % (s_, e_, hx(m_), ps, ' inf' if i_ else '', ' nan' if n_ else '')


def _bits_for(desc, frac):
    """Bit patterns the object must convert to, as far as the oracle knows them independently: a pattern-born object must give
    back its own pattern, a float-born one its double pattern, a computed one the double pattern of its value when that value is
    a non-zero double (the sign of a computed zero is not demanded)."""
    if desc[0] == 'pat':
        return {desc[1]: int(desc[2], 16) if isinstance(desc[2], str) else desc[2]}
    if desc[0] == 'float':
        x = float.fromhex(desc[1])
        return {'dp': struct.unpack('<Q', struct.pack('<d', x))[0]}
    if frac is None or frac == 0:
        return {}
    try:
        f = float(frac)
    except OverflowError:
        return {}
    if Fraction(f) != frac or math.isinf(f):
        return {}
    out = {'dp': struct.unpack('<Q', struct.pack('<d', f))[0]}
    for tf in ('sp', 'hp'):
        v = ref_encode(tf, f)
        if v is not None:
            out[tf] = v
    return out


def judge_history(case):
    """A small pool of LIVE FPNum objects; a sequence of operations uses the same objects again and again (also the same object
    on both sides).  After every operation: the result against Fractions, and every pool object must still be what it was --
    same components()/flags, same rational, same convert() bits."""
    out = []
    n = 0
    try:
        with muted():
            built = [build_operand(d) for d in case['pool']]
    except Exception as e:
        return 1, [V('fpnum_construct', dict(function='FPNum constructor', relation='raises:' + type(e).__name__), None, repr(e)[:120],
                     'building the pool %r raises %r' % (case['pool'], e))]
    objs = [b[0] for b in built]
    exp = [b[1] for b in built]
    for o, x in zip(objs, exp):
        if fpnum_value(o) != x:
            return 0, []          # construction is judged in the pattern / float sections
    snaps = [_snapshot(o) for o in objs]
    bits = [_bits_for(d, x) for d, x in zip(case['pool'], exp)]

    def purity(step, op, i, j):
        nonlocal n
        for k, o in enumerate(objs):
            role = 'self_and_argument' if (k == i and k == j) else ('self' if k == i else ('argument' if k == j else 'bystander'))
            n += 1
            rel = None
            obs = None
            if _snapshot(o) != snaps[k]:
                rel = 'representation_changed_value_preserved' if fpnum_value(o) == exp[k] else 'value_changed'
                obs = _snapshot(o)
            else:
                for fmt, v in bits[k].items():
                    n += 1
                    try:
                        with muted():
                            c = o.convert(fmt)
                    except Exception as e:
                        rel, obs = 'convert_raises:' + type(e).__name__, repr(e)[:80]
                        break
                    if c != v:
                        rel, obs = 'convert_bits_changed:' + pattern_relation(fmt, c, v), hx(c)
                        break
            if rel:
                out.append(V('fpnum_operand_purity', dict(function='FPNum.' + op, role=role, relation=rel.split(':')[0] if rel.startswith('convert_bits') else rel),
                             dict(components=_short(snaps[k]), bits={f: hex(v) for f, v in bits[k].items()}), _short(obs) if isinstance(obs, tuple) else obs,
                             'history step %d (%s %d,%d): pool object %d (%s) is no longer what it was: %s; was %s, now %s' % (
                                 step, op, i, j, k, role, rel, _short(snaps[k]), _short(_snapshot(o)))))
                return False
        return True

    aliased = False
    for step, opd in enumerate(case['ops']):
        op, i, j = opd[0], opd[1], opd[2]
        A, B = objs[i], objs[j]
        xa, xb = exp[i], exp[j]
        n += 1
        try:
            with muted():
                if op in ('add', 'sub', 'mul'):
                    r = getattr(A, op)(B)
                    want = {'add': xa + xb, 'sub': xa - xb, 'mul': xa * xb}[op]
                    got = fpnum_value(r)
                    if got != want:
                        out.append(V('fpnum_' + op, dict(function='FPNum.' + op, operands='history', relation='flagged_nonfinite' if got is None else relation(got, want)),
                                     str(want), str(got), 'history step %d: FPNum.%s(obj %d, obj %d): exact %s returned %s' % (step, op, i, j, want, got)))
                        break
                    # the result must be a fresh object: the library's own flow rounds results in place
                    # (r = a.add(b); r.reducePrecisionWithRounding(..)), which must never reach an operand
                    n += 1
                    alias = [k for k, o in enumerate(objs) if o is r]
                    if alias:
                        k = alias[0]
                        role = 'self' if k == i else ('argument' if k == j else 'bystander')
                        out.append(V('fpnum_result_identity', dict(function='FPNum.' + op, relation='result_is_the_%s_object' % role,
                                                                   operands='one_zero' if (xa == 0) != (xb == 0) else ('both_zero' if xa == 0 else 'nonzero')),
                                     'a new object', 'pool object %d' % k,
                                     'history step %d: FPNum.%s(obj %d, obj %d) returned pool object %d itself (%s); values %s, %s' % (step, op, i, j, k, role, xa, xb)))
                        aliased = True      # go on: if the history rounds this result, the purity pass shows the damage to the operand
                    mut = opd[4] if len(opd) > 4 else None
                    if mut:
                        # a mutator applied to the RESULT; the purity pass below must find every pool object untouched
                        getattr(r, mut[0])(mut[1])
                        if not aliased and mut[1] in PREC_FMT:
                            # ... and the flow's last step: convert the rounded result (it may be one step out of canonical form)
                            def hfail(fmt, form, rel, expected, observed, label, val):
                                out.append(V('%s_convert_after_rounding' % fmt, dict(fmt=fmt, stage='convert', function='FPNum.convert', object_form=form, relation=rel, flow='history'),
                                             expected, observed, 'history step %d: %s(obj %d, obj %d); %s(%d); convert(%s): object denotes %s (%s), expected %s observed %s [%s]' % (
                                                 step, op, i, j, mut[0], mut[1], fmt, val, form, expected, observed, rel)))
                            nb = len(out)
                            n += check_convert_of(r, [PREC_FMT[mut[1]]], hfail, 'history')
                            if len(out) > nb:
                                break
                elif op == 'div':
                    try:
                        A.div(B)          # quotients are not in the statement: only what div does to its operands is judged
                    except Exception:
                        pass
                    r = None
                elif op == 'compare':
                    c = A.compare(B)
                    if c != _sign(xa - xb):
                        out.append(V('fpnum_compare', dict(function='FPNum.compare', operands='history', relation='inverted' if c == -_sign(xa - xb) else 'other'),
                                     _sign(xa - xb), c, 'history step %d: compare(obj %d, obj %d) values %s vs %s returned %r' % (step, i, j, xa, xb, c)))
                        break
                    r = None
                elif op == 'convert':
                    A.convert(opd[3])     # the value returned is judged by the purity pass when the oracle knows the bits
                    r = None
                elif op == 'to_float':
                    f = A.to_float()
                    fb = bits[i].get('dp')
                    if fb is not None and struct.unpack('<Q', struct.pack('<d', f))[0] != fb:
                        out.append(V('fpnum_to_float', dict(function='FPNum.to_float', operands='history', relation=relation(f, ref_float('dp', fb))),
                                     ref_float('dp', fb), f, 'history step %d: to_float(obj %d) returned %r' % (step, i, f)))
                        break
                    r = None
                else:
                    raise ValueError(op)
        except Exception as e:
            out.append(V('fpnum_' + op, dict(function='FPNum.' + op, operands='history', relation='raises:' + type(e).__name__), None, repr(e)[:120],
                         'history step %d: FPNum.%s(obj %d, obj %d) raises %r' % (step, op, i, j, e)))
            break
        if not purity(step, op, i, j) or aliased:
            break
        dest = opd[3] if op in ('add', 'sub', 'mul') and len(opd) > 3 else None
        if dest is not None and r is not None and not (len(opd) > 4 and opd[4]):
            # the result becomes a live object itself
            objs[dest], exp[dest], snaps[dest] = r, want, _snapshot(r)
            bits[dest] = _bits_for(['op'], want)
    return n, out


def history_cases(tier, seed, shard):
    rnd = rng(seed, 'C12', 'history', shard)
    ops_pool = arith_operands(tier, rnd)
    nz = [d for d in ops_pool if not desc_is_zero(d)]
    zs = [d for d in ops_pool if desc_is_zero(d)]
    for _ in range(1500 if tier == 'quick' else 12000):
        pool = [rnd.choice(nz if rnd.random() < 0.9 else ops_pool) for _ in range(5)]
        if rnd.random() < 0.5:
            pool[rnd.randrange(5)] = rnd.choice(zs)          # an exact zero (either sign, any format) among the live objects
        ops = []
        for _ in range(rnd.randint(6, 16)):
            op = rnd.choice(('add', 'add', 'sub', 'sub', 'mul', 'div', 'compare', 'compare', 'convert', 'to_float'))
            i, j = rnd.randrange(5), rnd.randrange(5)
            if op in ('add', 'sub', 'mul'):
                mut = [rnd.choice(('reducePrecision', 'reducePrecisionWithRounding')), rnd.choice((3, 10, 10, 23, 23, 52))] if rnd.random() < 0.3 else None
                ops.append([op, i, j, None if mut else (rnd.randrange(5) if rnd.random() < 0.25 else None), mut])
            elif op == 'convert':
                ops.append([op, i, i, rnd.choice(FMTS)])
            elif op == 'to_float':
                ops.append([op, i, i])
            else:
                ops.append([op, i, j])
        yield dict(kind='history', pool=pool, ops=ops)


# --------------------------------------------------------------------------- (h) round a result, then convert it

PREC_FMT = {10: 'hp', 23: 'sp', 52: 'dp'}


def encode_value_trunc(fmt, x):
    """Reference encoding of the rational x in fmt by truncation toward zero (exact when x is representable): infinity when
    |x| >= 2**(emax+1); None when x lies between the largest finite value and 2**(emax+1) or is zero (the sign of a computed zero
    is not demanded)."""
    _, _, ew, mw = FM[fmt]
    bias = (1 << (ew - 1)) - 1
    if x == 0:
        return None
    sgnbit = (1 << (ew + mw)) if x < 0 else 0
    ax = abs(x)
    if ax >= Fraction(2) ** (bias + 1):
        return sgnbit | (((1 << ew) - 1) << mw)
    e = ax.numerator.bit_length() - ax.denominator.bit_length()
    if Fraction(2) ** e > ax:
        e -= 1
    elif Fraction(2) ** (e + 1) <= ax:
        e += 1
    if e < 1 - bias:
        mant = int(ax / Fraction(2) ** (1 - bias - mw))          # floor: truncation toward zero
        return sgnbit | mant
    mant = int(ax / Fraction(2) ** (e - mw))
    return sgnbit | ((e + bias) << mw) | (mant - (1 << mw))


def canonical_form(n):
    if n.p == 0 or n.m == 0:
        return 'special_or_zero'
    if n.m >= 2 * n.p:
        return 'mantissa>=2p'
    if n.m < n.p:
        return 'mantissa<p'
    return 'canonical'


def check_convert_of(r, fmts, fail, label):
    """convert() must encode the value the object denotes NOW (s*m/p*2**e), whether or not (m, p) is in canonical form."""
    n = 0
    val = fpnum_value(r)
    if val is None:
        return n
    form = canonical_form(r)
    for fmt in fmts:
        exp = encode_value_trunc(fmt, val)
        if exp is None:
            continue
        ew_, mw_ = FM[fmt][2], FM[fmt][3]
        if (exp >> mw_) & ((1 << ew_) - 1) == (1 << ew_) - 1 and form != 'canonical' and r.m != 2 * r.p:
            # overflow of an object that was put out of canonical form by hand with 2p < m < 4p at the largest exponent: on the pinned tree
            # convert() returns a NaN-looking word there (reported to the lead).  Not reachable through rounding (a carry leaves exactly m == 2p,
            # which is judged) and not a representable value, so it is not judged.
            continue
        n += 1
        try:
            with muted():
                got = r.convert(fmt)
        except Exception as e:
            fail(fmt, form, 'raises:' + type(e).__name__, hex(exp), repr(e)[:100], label, val)
            continue
        if got != exp:
            fail(fmt, form, pattern_relation(fmt, got, exp), hex(exp), hx(got), label, val)
    return n


def judge_roundconv(case):
    """The reference-model flow of the library: r = a.op(b); r.reducePrecision[WithRounding](prec); r.convert(fmt) -- and FPNum objects
    put one step out of canonical form directly (set_semp / 4-argument form without adjust)."""
    FPNum = _helpers()[0]
    out = []
    n = 1

    def fail(fmt, form, rel, expected, observed, label, val):
        out.append(V('%s_convert_after_rounding' % fmt, dict(fmt=fmt, stage='convert', function='FPNum.convert', object_form=form, relation=rel, flow=label),
                     expected, observed, '%s then convert(%s): object denotes %s (%s), expected %s observed %s [%s]' % (label, fmt, val, form, expected, observed, rel)))

    try:
        with muted():
            if case.get('semp'):
                s_, e_, m_, p_ = (int(t, 16) if isinstance(t, str) else t for t in case['semp'])
                r = FPNum()
                r.set_semp(s_, e_, m_, p_)
                label = 'set_semp(%d, %d, %#x, 2**%d)' % (s_, e_, m_, p_.bit_length() - 1)
            else:
                A, xa = build_operand(case['a'])
                B, xb = build_operand(case['b'])
                r = getattr(A, case['op'])(B)
                want = {'add': xa + xb, 'sub': xa - xb, 'mul': xa * xb}[case['op']]
                if fpnum_value(r) != want:
                    return 1, []          # the operation itself is judged in the arithmetic section
                getattr(r, case['mut'][0])(case['mut'][1])
                label = '%s(%s, %s); %s(%d)' % (case['op'], case['a'][-1], case['b'][-1], case['mut'][0], case['mut'][1])
    except Exception as e:
        return 1, [V('fpnum_round_flow', dict(function='FPNum.' + str(case.get('op', 'set_semp')), relation='raises:' + type(e).__name__), None, repr(e)[:120],
                     'flow %r raises %r' % (case, e))]
    n += check_convert_of(r, case.get('fmts', FMTS), fail, label)
    return n, out


def roundconv_cases(tier, seed, shard):
    rnd = rng(seed, 'C12', 'roundconv', shard)
    i, nsh = shard if shard else (0, 1)
    quick = tier == 'quick'
    k = 0
    for prec, fmt in PREC_FMT.items():
        _, _, ew, mw = FM[fmt]
        top = (1 << ew) - 2
        es = sorted({mw + 3, mw + 4, (1 << (ew - 1)) - 2, (1 << (ew - 1)) - 1, (1 << (ew - 1)), top - 1, top} | {rnd.randint(mw + 3, top) for _ in range(3 if quick else 20)})
        for e in es:
            for ma in ((1 << mw) - 1, (1 << mw) - 2, 0, 1, rnd.getrandbits(mw) | ((1 << mw) - (1 << (mw // 2)))):
                for sa in (0, 1):
                    a = (sa << (ew + mw)) | (e << mw) | ma
                    # addends around half an ulp of a: 1/4, 1/2, 3/4, 1, 3/2 ulp (rounding carries out of an all-ones mantissa)
                    for eb, mb in ((e - mw - 2, 0), (e - mw - 1, 0), (e - mw - 1, 1 << (mw - 1)), (e - mw - 1, 1), (e - mw, 0), (e - mw, 1 << (mw - 1))):
                        if eb < 1:
                            continue
                        for sb in (sa, 1 - sa):
                            k += 1
                            if k % nsh != i:
                                continue
                            b = (sb << (ew + mw)) | (eb << mw) | mb
                            for mut in ('reducePrecisionWithRounding', 'reducePrecision'):
                                yield dict(kind='roundconv', op='add', a=['pat', fmt, hex(a)], b=['pat', fmt, hex(b)], mut=[mut, prec], fmts=[fmt])
        # products of all-ones mantissas (2 - ulp)**2 and random products, rounded back to the format
        for _ in range(40 if quick else 600):
            a = (rnd.getrandbits(1) << (ew + mw)) | (rnd.randint(top // 2 - 8, top // 2 + 8) << mw) | rnd.choice(((1 << mw) - 1, rnd.getrandbits(mw)))
            b = (rnd.getrandbits(1) << (ew + mw)) | (rnd.randint(top // 2 - 8, top // 2 + 8) << mw) | rnd.choice(((1 << mw) - 1, rnd.getrandbits(mw)))
            yield dict(kind='roundconv', op=rnd.choice(('mul', 'add', 'sub')), a=['pat', fmt, hex(a)], b=['pat', fmt, hex(b)],
                       mut=[rnd.choice(('reducePrecisionWithRounding', 'reducePrecision')), prec], fmts=[fmt])
        # a rounding carry out of the subnormal range: the value becomes the smallest normal number
        bias_ = (1 << (ew - 1)) - 1
        for sgn_ in (1, -1):
            yield dict(kind='roundconv', semp=[sgn_, -bias_, hex(2 << mw), hex(1 << mw)], fmts=[fmt])
            yield dict(kind='roundconv', semp=[sgn_, -bias_, hex((2 << mw) - 1), hex(1 << mw)], fmts=[fmt])
            yield dict(kind='roundconv', semp=[sgn_, 1 - bias_, hex((1 << mw) - 1), hex(1 << mw)], fmts=[fmt])
        if fmt != 'dp':
            import struct
            # doubles just below the smallest normal of the narrower format, rounded to its precision
            for frac in (1, 2, 3, 4, 8):
                x = (2.0 ** (1 - bias_)) * (1 - 2.0 ** -(mw + frac))
                for x_ in (x, -x):
                    bits = struct.unpack('>Q', struct.pack('>d', x_))[0]
                    zero = 0 if x_ > 0 else (1 << 63)
                    for mut in ('reducePrecisionWithRounding', 'reducePrecision'):
                        yield dict(kind='roundconv', op='add', a=['pat', 'dp', hex(bits)], b=['pat', 'dp', hex(zero)], mut=[mut, prec], fmts=[fmt])
        # objects one step out of canonical form, set directly: m in [2p, 4p) and m in [p/2, p)
        for _ in range(60 if quick else 600):
            pk = rnd.choice((mw, mw, rnd.randint(1, mw)))
            p_ = 1 << pk
            m_ = rnd.choice((2 * p_, 4 * p_ - 1, 2 * p_ + rnd.getrandbits(pk), p_ - 1, p_ >> 1 if pk else p_, (p_ >> 1) + rnd.getrandbits(max(pk - 1, 1)) % max(p_ >> 1, 1)))
            if not (p_ // 2 <= m_ < 4 * p_) or m_ == 0:
                continue
            bias = (1 << (ew - 1)) - 1
            e_ = rnd.choice((0, 1, -1, bias - 1, bias, 2 - bias, 3 - bias, rnd.randint(3 - bias, bias - 1)))
            yield dict(kind='roundconv', semp=[rnd.choice((1, -1)), e_, hex(m_), hex(p_)], fmts=[fmt])


# --------------------------------------------------------------------------- (i) the life of ONE object: observers between in-place mutators

LIFE_OBSERVERS = ('convert_hp', 'convert_sp', 'convert_dp', 'to_float', 'compare', 'compared_with', 'is_infinity')
LIFE_MUTATORS = ('reducePrecision', 'reducePrecisionWithRounding', 'increase_precision', 'increase_exponent', 'set_semp+adjust_semp', 'set_semp',
                 'adjust_sem', 'from_ieee754', 'convert_float_to_semp', 'attribute_write_sign', 'replaced_by_result')


def _fresh_clone(o):
    """A FRESH object with the same components and flags (plain attribute writes on a new FPNum(): no setter, no copy())."""
    c = _helpers()[0]()
    c.s, c.e, c.m, c.p = o.s, o.e, o.m, o.p
    c.infinity, c.nan, c.inexact = o.infinity, o.nan, o.inexact
    return c


def _observe(o, name, others):
    try:
        with muted():
            if name.startswith('convert_'):
                return hx(o.convert(name[8:]))
            if name == 'to_float':
                return repr(o.to_float())
            if name == 'compare':
                return [o.compare(b) for b in others]
            if name == 'compared_with':
                return [b.compare(o) for b in others]
            if name == 'is_infinity':
                return [bool(o.isPositiveInfinity()), bool(o.isNegativeInfinity())]
    except Exception as e:
        return 'raises:' + type(e).__name__
    raise ValueError(name)


def _pow2(p):
    return p > 0 and p & (p - 1) == 0


def judge_life(case):
    """ONE live FPNum object; a sequence of steps, each an in-place mutator (or nothing) followed by a list of observers.  Oracles:
    (1) every observer answers exactly what it answers on a FRESH object with the same components -- observers are functions of the
    denoted value, not of what was asked or done before; (2) convert() encodes the value the object denotes NOW (as in section h) when
    the object is in canonical form or carries out of it by rounding (p <= m <= 2p); (3) the mutators whose effect is modelled leave the modelled value."""
    FPNum = _helpers()[0]
    out = []
    n = 0
    try:
        with muted():
            live, val = build_operand(case['born'])
            others = [build_operand(d) for d in case['others']]
    except Exception as e:
        return 1, [V('fpnum_construct', dict(function='FPNum constructor', relation='raises:' + type(e).__name__), None, repr(e)[:120],
                     'building %r raises %r' % (case['born'], e))]
    if fpnum_value(live) != val:
        return 0, []              # construction is judged elsewhere
    oth = [b[0] for b in others]
    asked = set()
    last_mut = 'none'
    for step, (mut, observers) in enumerate(case['steps']):
        rounded = False
        if mut:
            last_mut = name = mut[0]
            n += 1
            want = val
            either = None
            try:
                with muted():
                    if name in ('reducePrecision', 'reducePrecisionWithRounding'):
                        k = mut[1]
                        if not _pow2(live.p):
                            continue
                        if (1 << k) < live.p:
                            sh = live.p.bit_length() - 1 - k
                            lo = Fraction(live.s) * Fraction(live.m >> sh, 1 << k) * Fraction(2) ** live.e
                            ulp = Fraction(live.s) * Fraction(1, 1 << k) * Fraction(2) ** live.e
                            want = lo
                            if name == 'reducePrecisionWithRounding' and (live.m & ((1 << sh) - 1)):
                                either = (lo, lo + ulp)        # which way it rounds is not judged
                        getattr(live, name)(k)
                        rounded = True
                    elif name == 'increase_precision':
                        live.increase_precision(live.p << mut[1])
                    elif name == 'increase_exponent':
                        live.increase_exponent(live.e + mut[1])
                    elif name in ('set_semp+adjust_semp', 'set_semp'):
                        s_, e_, m_, p_ = (int(t, 16) if isinstance(t, str) else t for t in mut[1:5])
                        live.set_semp(s_, e_, m_, p_)
                        if name == 'set_semp+adjust_semp':
                            live.adjust_semp()
                        want = Fraction(s_) * Fraction(m_, p_) * Fraction(2) ** e_
                    elif name == 'adjust_sem':
                        s_, e_, m_ = mut[1], mut[2], float.fromhex(mut[3])
                        live.adjust_sem(s_, e_, m_)
                        want = None                      # the float mantissa form is not modelled; the observers are still compared
                    elif name == 'from_ieee754':
                        v = int(mut[2], 16)
                        getattr(live, 'from_ieee754_' + mut[1])(v)
                        want = ref_value(mut[1], v)
                    elif name == 'convert_float_to_semp':
                        x = float.fromhex(mut[1])
                        live.convert_float_to_semp(x)
                        want = Fraction(x)
                    elif name == 'attribute_write_sign':
                        live.s = -live.s
                        want = -val
                    elif name == 'replaced_by_result':
                        b, xb = others[mut[2]]
                        live = getattr(live, mut[1])(b)
                        want = {'add': val + xb, 'sub': val - xb, 'mul': val * xb}[mut[1]]
                    else:
                        raise ValueError(name)
            except Exception as e:
                out.append(V('fpnum_life_mutator', dict(function='FPNum.' + name, relation='raises:' + type(e).__name__), None, repr(e)[:120],
                             'life step %d: %r on the live object raises %r' % (step, mut, e)))
                break
            got = fpnum_value(live)
            if want is None or got is None:
                val = got
            elif got == want or (either and got in either):
                val = got
            else:
                out.append(V('fpnum_life_mutator', dict(function='FPNum.' + name, relation=relation(got, want)), str(want), str(got),
                             'life step %d: after %r the object denotes %s, modelled %s' % (step, mut, got, want)))
                break
            if val is None:
                break                 # became inf / NaN: not part of this class
        for ob in observers:
            n += 1
            a = _observe(live, ob, oth)
            f = _observe(_fresh_clone(live), ob, oth)
            again = 'asked_before' if ob in asked else 'first_time_asked'
            asked.add(ob)
            if a != f:
                out.append(V('fpnum_observer_history', dict(function='FPNum.' + ob.split('_')[0] if ob.startswith('convert') else 'FPNum.' + ob, relation='differs_from_fresh_object_with_the_same_components',
                                                            last_mutator=last_mut, observer=again),
                             f, a, 'life step %d: after %s, %s on the live object answers %r, on a fresh object with the same components (%s) %r [%s]; life so far: born %r, steps %r' % (
                                 step, last_mut, ob, a, _short(_snapshot(live)), f, again, case['born'], case['steps'][:step + 1])))
                return n, out
            if ob.startswith('convert_') and val != 0 and live.p > 0 and live.p <= live.m <= 2 * live.p:
                # canonical form, or the carry of a rounding (m == 2p); objects put out of canonical form by hand (increase_exponent, set_semp) are
                # compared with the fresh object only -- section h judges the one-step-out forms
                def lfail(fmt, form_, rel, expected, observed, label, v_):
                    out.append(V('%s_convert_after_rounding' % fmt, dict(fmt=fmt, stage='convert', function='FPNum.convert', object_form=form_, relation=rel, flow='life'),
                                 expected, observed, 'life step %d (last mutator %s): convert(%s): object denotes %s (%s), expected %s observed %s [%s]' % (
                                     step, last_mut, fmt, v_, form_, expected, observed, rel)))
                n += check_convert_of(live, [ob[8:]], lfail, 'life')
                if out:
                    return n, out
            elif ob == 'compare' and val is not None:
                exp_c = [_sign(val - xb) for _, xb in others]
                if a != exp_c:
                    out.append(V('fpnum_compare', dict(function='FPNum.compare', operands='life', relation='other'), exp_c, a,
                                 'life step %d: compare(live %s, others %s) returned %r' % (step, val, [str(xb) for _, xb in others], a)))
                    return n, out
    return n, out


def life_cases(tier, seed, shard):
    rnd = rng(seed, 'C12', 'life', shard)
    ops_pool = arith_operands(tier, rnd)
    nz = [d for d in ops_pool if not desc_is_zero(d)]

    def finite_pattern(fmt):
        _, _, ew, mw = FM[fmt]
        e = rnd.choice((0, 1, (1 << (ew - 1)) - 1, (1 << ew) - 2, rnd.randrange((1 << ew) - 1)))
        return hex((rnd.getrandbits(1) << (ew + mw)) | (e << mw) | rnd.choice((0, 1, (1 << mw) - 1, rnd.getrandbits(mw))))

    def mutator():
        name = rnd.choice(LIFE_MUTATORS + ('reducePrecision', 'reducePrecisionWithRounding') * 3)
        if name.startswith('reducePrecision'):
            return [name, rnd.choice((1, 2, 3, 5, 10, 10, 23, 23, 30, 52, 60))]
        if name == 'increase_precision':
            return [name, rnd.randint(1, 8)]
        if name == 'increase_exponent':
            return [name, 1]
        if name.startswith('set_semp'):
            pk = rnd.choice((1, 4, 10, 23, 52, rnd.randint(1, 70)))
            e_ = rnd.choice((0, 1, -1, 5, -14, 15, -126, 127, rnd.randint(-140, 120)))
            return [name, rnd.choice((1, -1)), e_, hex((1 << pk) + rnd.getrandbits(pk)), hex(1 << pk)]
        if name == 'adjust_sem':
            return [name, rnd.choice((1, -1)), rnd.randint(-20, 20), (1 + rnd.getrandbits(20) / (1 << 20)).hex()]
        if name == 'from_ieee754':
            fmt = rnd.choice(FMTS)
            return [name, fmt, finite_pattern(fmt)]
        if name == 'convert_float_to_semp':
            return [name, (rnd.choice((1, -1)) * math.ldexp(1 + rnd.getrandbits(rnd.choice((3, 10, 23, 52))) / (1 << 52), rnd.randint(-30, 30))).hex()]
        if name == 'attribute_write_sign':
            return [name]
        return [name, rnd.choice(('add', 'sub', 'mul')), rnd.randrange(3)]

    for _ in range(1200 if tier == 'quick' else 12000):
        born = rnd.choice(nz)
        others = [rnd.choice(nz) for _ in range(3)]
        steps = [[None, [o for o in LIFE_OBSERVERS if rnd.random() < 0.5]]]
        for _ in range(rnd.randint(3, 10)):
            steps.append([mutator() if rnd.random() < 0.8 else None, [o for o in LIFE_OBSERVERS if rnd.random() < 0.5]])
        yield dict(kind='life', born=born, others=others, steps=steps)


def _split(v):
    """hash(int) reduces modulo 2**61-1, so wide patterns are hashed as 60-bit limbs (v + 2**63 and v + 4 must not collide)."""
    m = (1 << 60) - 1
    return (v >> 120, (v >> 60) & m, v & m)


JUDGES = {'pattern': judge_pattern, 'c2': judge_c2, 'arith': judge_arith, 'fxp': judge_fxp, 'float': judge_float, 'history': judge_history, 'roundconv': judge_roundconv, 'life': judge_life}
CASE_TIMEOUT = 30    # seconds; the slowest case on the unchanged tree takes a few milliseconds


class Hang(BaseException):
    """Raised by SIGALRM when one case does not return (BaseException: the judges' `except Exception` must not eat it)."""


def _on_alarm(signum, frame):
    raise Hang()


def judge(case):
    return JUDGES[case['kind']](case)


NT_SUBSAMPLE = 4     # thorough tier: only cases with content hash = 0 mod 4 are registered as distinct non-trivial (lower bound)
PER_MECHANISM = 3   # unknown violations recorded per (key, classifier fields); the rest are counted, so that one
                    # mechanism cannot use up the 40-violation cap and hide a different one


def report(run, case, viols):
    seen = run.__dict__.setdefault('_mechanisms', {})
    for v in viols:
        if sys.flags.optimize:
            v['fields']['interpreter'] = '-O'
            v['what'] += ' [interpreter run with PYTHONOPTIMIZE=%d: assert statements are stripped]' % sys.flags.optimize
        mech = stable_hash([v['key'], v['fields']])
        if seen.get(mech, 0) >= PER_MECHANISM:
            run.count('violations_same_mechanism_not_recorded')
            continue
        if run.violation(v['key'], v['fields'], dict(case, function=v['fields'].get('function')),
                         expected=v['expected'], observed=v['observed'], what=v['what']):
            seen[mech] = seen.get(mech, 0) + 1


def run_check(run, tier, seed, shard):
    run.assume('only exactly representable values are judged for encode/convert (the statement says "every representable value"); '
               'conversion of a value that the target format cannot hold exactly is counted as not_representable, not judged')
    run.assume('NaN: only "is a NaN" is compared (payloads excepted)')
    run.assume('not judged: convert() of hand-set objects with 2p < m < 4p that overflow at the largest exponent (not reachable through rounding, not a representable value)')
    run.assume('convert() of an object that was rounded in place (reducePrecision / reducePrecisionWithRounding) or set directly one step out of canonical '
               'form (p/2 <= m < 4p) must encode the value the object denotes at that moment, s*m/p*2**e: exact when representable, truncated toward zero '
               'otherwise, infinity from 2**(emax+1) on; how the reducePrecision* helpers round (ties) is not judged, only what convert does afterwards')
    run.assume('operand purity: add/sub/mul/div/compare/convert/to_float must leave self, the argument and unrelated objects exactly as they were '
               '(components(), flags, convert() bits); only reducePrecision* are mutators by contract; they are applied to RESULTS only, and a result must be a new object (not one of the operands)'
               ' so that rounding it cannot reach an operand.  Quotients of div are not '
               'in the statement and not judged (exceptions from div are tolerated), only what div does to its operands')
    run.assume('object life: convert / to_float / compare / isPositiveInfinity / isNegativeInfinity are observers -- on a live object that was observed and mutated in place before '
               '(reducePrecision*, increase_*, set_semp, adjust_*, from_ieee754_*, convert_float_to_semp, a write to the public attribute s) they must answer what a fresh object with '
               'the same components answers; modelled mutator effects: reducePrecision(k) truncates m/p to k fraction bits, reducePrecisionWithRounding(k) gives that or one unit more, '
               'increase_* and adjust_semp keep the value; adjust_sem with a float mantissa is not modelled (observers still compared)')
    run.assume('Python floats that are not singles: FloatingPointHelper.sp_to_ieee754(_parts) documents "the IEEE 754 representation of v" and rounds, '
               'so it is compared with the platform (struct \'<f\', round to nearest even, overflow -> infinity); sp_to_ieee754_parts is judged by the '
               'word s<<31 + e<<23 + m its parts denote (parts (s,0,2**23) are the smallest normal).  FPNum.convert truncates by design '
               '(reducePrecisionWithRounding is the separate rounding step) and stays judged on representable values only')
    run.assume('the round trip pattern -> FPNum -> pattern is judged only when the decode stage was right for that pattern; a wrong decode is '
               'reported once, as a decode failure, and the encoder is still judged from the struct float')
    run.assume('ieee754_parts_to_sp/dp judged on finite fields only (ieee754_to_sp/dp handle inf/NaN before calling them)')
    run.assume('fp_to_parts judged by the value identity v == (-1)**s * m * 2**e with 1 <= m < 2 only')
    run.assume('FPNum.compare on two zeros of opposite sign must return 0: both denote the rational 0 (the repository\'s own test table lists '
               'compare(0, -0) == 0)')
    run.assume('FixedPoint helper: signed formats (1, iw, fw); truncated product = floor(sx*sy / 2**fw) mod 2**w on the signed values of the raw encodings')
    deadline = time.time() + (500 if tier == 'quick' else 2400)
    sect = {}
    signal.signal(signal.SIGALRM, _on_alarm)

    def sweep(name, cases, nontrivial, key, sample_every):
        e0 = run.evaluations
        ncases = 0
        nviol = 0
        for case in cases:
            if run.too_many:
                break
            if ncases % 256 == 0 and time.time() > deadline:
                run.inconclusive.append('watchdog hit in section %s after %d cases' % (name, ncases))
                break
            signal.alarm(CASE_TIMEOUT)
            try:
                n, viols = judge(case)
            except Hang:
                # a helper that loops forever decides nothing: watchdog -> inconclusive, never a silent pass
                run.inconclusive.append('a helper call did not return within %d s on case %r' % (CASE_TIMEOUT, case))
                run.extra['hung_case'] = case
                break
            finally:
                signal.alarm(0)
            run.ev(n)
            ncases += 1
            if nontrivial(case):
                h = key(case)
                if tier == 'quick' or h % NT_SUBSAMPLE == 0:
                    run.nt(h)
            if viols:
                nviol += len(viols)
                report(run, case, viols)
            if ncases % sample_every == 1:
                run.sample(dict(case, evaluations=n, violations=len(viols)))
        sect[name] = dict(cases=ncases, evaluations=run.evaluations - e0, failures_incl_known=nviol)
        return ncases

    if os.environ.get(OPT_CHILD_ENV) == '1':
        # ---- the reduced pass executed by the child interpreter that the normal run starts with PYTHONOPTIMIZE=1
        stripped = True
        try:
            assert False
        except AssertionError:
            stripped = False
        if not (sys.flags.optimize and stripped):
            run.inconclusive.append('the child interpreter is not running optimized (sys.flags.optimize=%r)' % (sys.flags.optimize,))
            return
        sweep('O_fpnum_arith', itertools.islice(arith_cases(tier, seed, ('O', 1)), 4000), lambda c: not (desc_is_zero(c['a']) and desc_is_zero(c['b'])),
              lambda c: int(stable_hash([c['a'], c['b']]), 16), 997)
        sweep('O_fpnum_histories', itertools.islice(history_cases(tier, seed, ('O', 1)), 300), lambda c: True,
              lambda c: int(stable_hash([c['pool'], c['ops']]), 16), 97)
        sweep('O_patterns_hp', (dict(kind='pattern', fmt='hp', pattern=hex(v)) for v in range(7, 1 << 16, 16)), lambda c: True,
              lambda c: hash((1, 0) + _split(int(c['pattern'], 16))), 1009)
        sweep('O_floats', itertools.islice(float_cases(tier, seed, (0, 1)), 0, None, 23), lambda c: True,
              lambda c: hash((5,) + _split(struct.unpack('<Q', struct.pack('<d', float.fromhex(c['x'])))[0])), 1009)
        run.extra['optimized_interpreter_pass'] = dict(asserts_stripped=True, sys_flags_optimize=sys.flags.optimize,
                                                       **{k: v['evaluations'] for k, v in sect.items()})
        return
    # (a) patterns
    classes = {}
    for fmt in FMTS:
        def counted(fmt=fmt):
            for v in pattern_cases(fmt, tier, seed, shard):
                c = fmt + '_' + value_class(fmt, v)
                classes[c] = classes.get(c, 0) + 1
                yield dict(kind='pattern', fmt=fmt, pattern=hex(v))
        sweep('patterns_' + fmt, counted(), lambda c: int(c['pattern'], 16) != 0,
              lambda c: hash((1, FMTS.index(c['fmt'])) + _split(int(c['pattern'], 16))), 20011 if fmt == 'hp' else 7001)
    run.extra['pattern_classes'] = classes
    if shard is None or tier == 'thorough':
        run.extra['half_patterns_exhaustive'] = True
    # (b) two's complement
    sweep('twos_complement', c2_cases(tier, seed, shard), lambda c: c['v'] != 0, lambda c: hash((2, c['w']) + _split(c['v'])), 997)
    # (c) FPNum arithmetic
    sweep('fpnum_arith', arith_cases(tier, seed, shard), lambda c: not (desc_is_zero(c['a']) and desc_is_zero(c['b'])),
          lambda c: int(stable_hash([c['a'], c['b']]), 16), 1999)
    # (c') compare on close wide-mantissa pairs
    cwstat = {}
    sweep('fpnum_close_wide_pairs', close_wide_cases(tier, seed, shard, cwstat), lambda c: True,
          lambda c: int(stable_hash([c['a'], c['b']]), 16), 499)
    cwstat['judged_evaluations'] = sect['fpnum_close_wide_pairs']['evaluations']
    run.extra['close_wide_pair_class'] = cwstat
    if not run.too_many:
        for k in CLOSE_WIDE_CLASSES:
            if not cwstat.get(k):
                run.inconclusive.append('close wide-mantissa compare class never generated: %s' % k)
        if sect['fpnum_close_wide_pairs']['evaluations'] < 4 * sect['fpnum_close_wide_pairs']['cases']:
            run.inconclusive.append('close wide-mantissa compare class: %d of %d cases were not judged (operands did not denote the intended values)' % (
                sect['fpnum_close_wide_pairs']['cases'] - sect['fpnum_close_wide_pairs']['evaluations'] // 4, sect['fpnum_close_wide_pairs']['cases']))
    # (d) FixedPoint helper
    fmts_seen = {}

    def fx():
        for c in fxp_cases(tier, seed, shard):
            k = '1.%d.%d' % (c['iw'], c['fw'])
            fmts_seen[k] = fmts_seen.get(k, 0) + 1
            yield c
    sweep('fixedpoint_helper', fx(), lambda c: c['x'] != 0 or c['y'] != 0, lambda c: hash((4, c['iw'], c['fw'], c['x'], c['y'])), 20011)
    run.extra['fixedpoint_formats'] = fmts_seen
    # (e) Python floats that are not singles, around every single-precision boundary
    fclasses = {}

    def fl():
        for c in float_cases(tier, seed, shard):
            yield c
    def fkey(c):
        return hash((5,) + _split(struct.unpack('<Q', struct.pack('<d', float.fromhex(c['x'])))[0]))
    def fnt(c):
        x = float.fromhex(c['x'])
        needs_rounding = ref_float('sp', platform_sp(x)) != x
        fclasses['needs_rounding' if needs_rounding else 'exactly_a_single'] = fclasses.get('needs_rounding' if needs_rounding else 'exactly_a_single', 0) + 1
        return needs_rounding
    sweep('floats_around_sp_boundaries', fl(), fnt, fkey, 9973)
    run.extra['float_neighbourhood_inputs'] = fclasses
    # (f) histories: the same live FPNum objects used again and again
    hstat = {'histories': 0, 'operations': 0}

    def hist():
        for c in history_cases(tier, seed, shard):
            hstat['histories'] += 1
            hstat['operations'] += len(c['ops'])
            for o in c['ops']:
                hstat['op_' + o[0]] = hstat.get('op_' + o[0], 0) + 1
                if o[1] == o[2] and o[0] in ('add', 'sub', 'mul', 'div', 'compare'):
                    hstat['same_object_on_both_sides'] = hstat.get('same_object_on_both_sides', 0) + 1
            yield c
    sweep('fpnum_histories', hist(), lambda c: True, lambda c: int(stable_hash([c['pool'], c['ops']]), 16), 499)
    run.extra['history_class'] = hstat
    # (h) add/sub/mul -> round the result in place -> convert, with operands chosen so that the rounding carries
    rstat = {}

    def rc():
        for c in roundconv_cases(tier, seed, shard):
            kk = 'direct_noncanonical' if c.get('semp') else c['mut'][0]
            rstat[kk] = rstat.get(kk, 0) + 1
            yield c
    sweep('round_then_convert', rc(), lambda c: True, lambda c: int(stable_hash(c), 16), 1499)
    run.extra['round_then_convert_flows'] = rstat
    # (i) the life of one object: observers interleaved with every in-place mutator
    lstat = {}

    def lf():
        for c in life_cases(tier, seed, shard):
            asked = set()
            for mut, obs in c['steps']:
                if mut:
                    lstat['mutator_' + mut[0]] = lstat.get('mutator_' + mut[0], 0) + 1
                    for o in obs:
                        if o in asked:
                            lstat['observer_asked_again_after_a_mutator'] = lstat.get('observer_asked_again_after_a_mutator', 0) + 1
                            if o.startswith('convert') and mut[0].startswith('reducePrecision'):
                                lstat['same_format_converted_again_after_reducePrecision'] = lstat.get('same_format_converted_again_after_reducePrecision', 0) + 1
                for o in obs:
                    lstat['observer_' + o] = lstat.get('observer_' + o, 0) + 1
                    asked.add(o)
            yield c
    sweep('fpnum_object_life', lf(), lambda c: True, lambda c: int(stable_hash([c['born'], c['steps']]), 16), 499)
    run.extra['object_life_class'] = lstat
    if not run.too_many and not run.violations:
        for k in ['mutator_' + m for m in LIFE_MUTATORS] + ['observer_' + o for o in LIFE_OBSERVERS] + ['observer_asked_again_after_a_mutator', 'same_format_converted_again_after_reducePrecision']:
            if not lstat.get(k):
                run.inconclusive.append('object-life class never exercised: %s' % k)
    run.extra['sections'] = sect
    # (g) the same helpers in an interpreter that strips assert statements (python -O / PYTHONOPTIMIZE=1): a reduced pass in a child
    if shard is None or shard[0] == 0:
        optimized_child(run, tier, seed)
    for name, s in sect.items():
        if s['evaluations'] == 0 and not run.too_many:
            run.inconclusive.append('section %s evaluated nothing' % name)


OPT_CHILD_ENV = 'C12_OPTIMIZED_CHILD'


def optimized_child(run, tier, seed):
    """Start `check C12 --shard 0/1` in a child interpreter with PYTHONOPTIMIZE=1 (reduced workload, see run_check) and merge what it
    observed; its violations carry interpreter='-O'."""
    with run_dir() as d:
        out = os.path.join(d, 'optimized.json')
        env = dict(os.environ, PYTHONOPTIMIZE='1', VERIF_SEED=str(seed), VERIF_TIER=tier, PYTHONHASHSEED='0')
        env[OPT_CHILD_ENV] = '1'
        try:
            p = subprocess.run([PYTHON, os.path.join(ROOT, 'check'), 'C12', '--tier', tier, '--shard', '0/1', '--out', out],
                               env=env, stdout=subprocess.DEVNULL, stderr=subprocess.PIPE, cwd=ROOT, timeout=600)
        except subprocess.TimeoutExpired:
            run.inconclusive.append('the PYTHONOPTIMIZE=1 child hit its 600 s watchdog')
            return
        if not os.path.exists(out):
            tail = (p.stderr or b'').decode(errors='replace').strip().splitlines()[-3:]
            run.inconclusive.append('the PYTHONOPTIMIZE=1 child died (rc=%s): %s' % (p.returncode, ' | '.join(tail)))
            return
        with open(out) as f:
            dd = json.load(f)
    if 'optimized_interpreter_pass' not in dd.get('extra', {}) and not dd.get('violations') and not dd.get('inconclusive'):
        run.inconclusive.append('the PYTHONOPTIMIZE=1 child reported nothing')
    run.merge(dd)


def replay(run, case):
    c = case['case']
    if case.get('fields', {}).get('interpreter') == '-O' and not sys.flags.optimize:
        # the case was observed in the optimized child: replay it the same way
        env = dict(os.environ, PYTHONOPTIMIZE='1')
        return subprocess.run([PYTHON] + sys.argv, env=env).returncode
    n, viols = judge(c)
    fn = c.get('function')
    rel = [v for v in viols if fn is None or v['fields'].get('function') == fn] or viols
    print('replay', {k: v for k, v in c.items() if k != 'function'}, '-> %d helper calls, %d failing' % (n, len(viols)))
    for v in rel:
        print('  ', v['key'], v['what'])
    if rel:
        print('VIOLATION property=%s replay=%s' % (run.prop, 'replayed'))
    return 1 if rel else 0
