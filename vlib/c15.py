"""C15 -- waveform capture records exactly what the wires carried, once per cycle (DESIGN.md section C15).

Monitor: two harness probe clockables (a Logic leaf whose clock() appends Wire.get() of every wire of the
design) sit immediately BEFORE and AFTER the real py4hw.Waveform in the simulator's clockable order; they run
in the clocking phase of every Simulator._clk_cycle, i.e. they see the value each wire carries going into the
edge.  Oracle: Waveform.getDict()[wire] equals the probe's list for every watch-list entry (wire, InPort,
OutPort, duplicates, port+wire aliases), also after clear() and for zero cycles.

The WaveDrom rendering returned by get_wavedrom() is decoded by decode_lane()/decode_clock_lane() below
(written from the documented format: data lanes 'x' + one character per cycle + 'x', '.' repeats the previous
sample, '0'/'1' for 1-bit wires, '2' + next label of 'data' in upper-case hex for wider wires; clock lane
'P' + one '.' per cycle + 'x') and must give back the same sample lists, entry i of signal[1:] belonging to
entry i of the watch list.
"""
import re
import time

from .common import muted, rng, stable_hash, boundary_values

LEVEL = 'exploration'
RULE = ('a case is one recording: a generated design plan (1-7 wires of width 1-64 driven by Wire.put pokes between clk() '
        'calls, py4hw.Sequence blocks, Counter, Buf and Reg copies; in 30% one or two extra clock domains -- ungated, or gated by a poked / Sequence-driven wire that really closes (1 bit, or in 60% of the gated drivers widened to 2, 3, 8 bits with a history over 0, 1, 2, 3, all-ones and all-ones-minus-1; the own domain of the recorder included) -- instantiated before or after the recorder domain, each with its own Sequence and a share of the clocked blocks; 1-bit stimulus partly written as Python bools; in 15% the parent of the recorder is a primitive (a Buf) instead of the system / a structural block; in 25% a Sequence/Reg leaf next to the recorder carries its own (mostly gated) ClockDriver and is often the first clockable of that block; a watch list of 1-10 entries mixing Wire, InPort and OutPort '
        'objects with duplicates and port+wire aliases and, in 30%, FieldInspector / ValueFormatter rows at any position; in 25% the recorder is attached after the simulator exists (warm-up cycles and/or a Scope) and the simulator refreshed with getSimulator(); a random order of the leaves around probe-before < Waveform < probe-after) '
        '(wires may share a short name across two scopes) plus a step list (clk(n) calls with n in 0..40, pokes, clear(), checkpoints) totalling 0-200 cycles; value histories are '
        'built from small per-wire pools with forced run lengths 1-9 so that values repeat and return. Every checkpoint compares '
        'getDict() with the probes and decodes get_wavedrom() for every watch entry (one evaluation per entry and checkpoint). '
        'Non-trivial = some watched wire of the recording has, inside one checked window, a run of >= 2 equal consecutive samples '
        'and >= 2 distinct values; distinct by content hash of the plan')
SHARDS = {'quick': 1, 'thorough': 16}
TIMEOUT = {'quick': 600, 'thorough': 3000}
MIN_NONTRIVIAL = {'quick': 1000, 'thorough': 50000}

RECORDINGS = {'quick': 5000, 'thorough': 320000}

_HEX = re.compile(r'^[0-9A-F]+$')


# --------------------------------------------------------------------------- WaveDrom decoder (trusted base)

class DecodeError(Exception):
    pass


def decode_lane(wave, data, width):
    """Signal lane -> list of integer samples.  Raises DecodeError on anything outside the documented format."""
    if not isinstance(wave, str) or len(wave) < 2 or wave[0] != 'x' or wave[-1] != 'x':
        raise DecodeError('lane is not x...x: %r' % (wave,))
    out = []
    di = 0
    for pos, ch in enumerate(wave[1:-1]):
        if ch == '.':
            if not out:
                raise DecodeError('run-length dot with no previous sample at cycle %d' % pos)
            out.append(out[-1])
        elif width == 1:
            if ch not in '01':
                raise DecodeError('1-bit lane has character %r at cycle %d' % (ch, pos))
            out.append(int(ch))
        else:
            if ch != '2':
                raise DecodeError('wide lane has character %r at cycle %d' % (ch, pos))
            if data is None or di >= len(data):
                raise DecodeError('no data label left for cycle %d' % pos)
            lab = data[di]
            di += 1
            if not isinstance(lab, str) or not _HEX.match(lab):
                raise DecodeError('label %r is not in the {:X} display format' % (lab,))
            out.append(int(lab, 16))
    return out, (len(data) - di if data else 0)


def decode_label_lane(wave, data):
    """Row of a FieldInspector / ValueFormatter -> list of label strings, one per cycle ('2' = next label, '.' = repeat)."""
    if not isinstance(wave, str) or len(wave) < 2 or wave[0] != 'x' or wave[-1] != 'x':
        raise DecodeError('lane is not x...x: %r' % (wave,))
    out = []
    di = 0
    for pos, ch in enumerate(wave[1:-1]):
        if ch == '.':
            if not out:
                raise DecodeError('run-length dot with no previous sample at cycle %d' % pos)
            out.append(out[-1])
        elif ch == '2':
            if data is None or di >= len(data):
                raise DecodeError('no data label left for cycle %d' % pos)
            out.append(data[di])
            di += 1
        else:
            raise DecodeError('label lane has character %r at cycle %d' % (ch, pos))
    return out


def decode_clock_lane(wave):
    """Clock lane -> number of cycles it spans ('P' + n x '.' + 'x')."""
    if not isinstance(wave, str) or len(wave) < 2 or wave[0] != 'P' or wave[-1] != 'x' or set(wave[1:-1]) - {'.'}:
        raise DecodeError('clock lane is not P....x: %r' % (wave,))
    return len(wave) - 2


# --------------------------------------------------------------------------- plan generation

def _width(rnd):
    r = rnd.random()
    if r < 0.28:
        return 1
    if r < 0.7:
        return rnd.choice([2, 3, 4, 5, 7, 8, 9, 12, 15, 16, 17, 24, 31, 32, 33, 48, 63, 64])
    return rnd.randint(2, 64)


def _pool(rnd, w):
    if w == 1:
        return rnd.choice([[0, 1], [0, 1], [1, 0], [1], [0]])
    k = rnd.choice([1, 2, 2, 2, 3, 3, 4, 6])
    cand = boundary_values(w, rnd, 3)
    rnd.shuffle(cand)
    return cand[:k]


def _runs(rnd, pool, n):
    """n samples from the pool with forced run lengths 1..9 (consecutive runs may pick the same value again)."""
    out = []
    while len(out) < n:
        out += [rnd.choice(pool)] * rnd.randint(1, 9)
    return out[:n]


def gen_plan(rnd):
    r = rnd.random()
    ncyc = 0 if r < 0.04 else rnd.randint(1, 3) if r < 0.12 else rnd.randint(4, 200)
    wires = []

    def add(spec):
        # scope 1 = the wire is declared in a side box, where it may carry the same short name as a wire of scope 0
        spec['name'] = 'w%d' % len(wires)
        spec['scope'] = 1 if rnd.random() < 0.3 else 0
        twins = [s['name'] for s in wires if s['scope'] != spec['scope']
                 and s['name'] not in [t['name'] for t in wires if t['scope'] == spec['scope']]]
        if twins and rnd.random() < 0.4:
            spec['name'] = rnd.choice(twins)
        wires.append(spec)
        return len(wires) - 1

    for _ in range(rnd.randint(1, 5)):
        kind = rnd.choice(['poke', 'poke', 'seq', 'seq', 'counter', 'buf', 'reg', 'not'])
        if kind in ('buf', 'reg', 'not') and not wires:
            kind = 'seq'
        if kind == 'poke':
            w = _width(rnd)
            add(dict(kind='poke', width=w, pool=_pool(rnd, w), p=rnd.choice([0.1, 0.3, 0.6, 1.0])))
        elif kind == 'seq':
            w = _width(rnd)
            ln = max(1, rnd.choice([ncyc, ncyc // 2 + 1, rnd.randint(2, 20)]))
            add(dict(kind='seq', width=w, values=_runs(rnd, _pool(rnd, w), ln), once=rnd.random() < 0.3))
        elif kind == 'counter':
            rs = add(dict(kind='poke', width=1, pool=[0, 0, 0, 1], p=0.3))
            inc = add(dict(kind='poke', width=1, pool=[0, 1], p=rnd.choice([0.3, 0.7])))
            add(dict(kind='counter', width=rnd.choice([1, 2, 3, 4, 8, 33]), reset=rs, inc=inc))
        else:
            src = rnd.randrange(len(wires))
            add(dict(kind=kind, width=wires[src]['width'], src=src))
    if len(wires) > 7:
        wires = wires[:7]
    # extra clock domains (0-2): each is a block with its own ClockDriver, ungated or gated by a 1-bit wire that really closes
    # (poked between clk() calls, or driven by a default-domain Sequence), instantiated before ('first') or after ('last') the
    # default-domain blocks and the recorder -- so the simulator visits a gated domain before or after the recorder's domain
    domains = []
    if rnd.random() < 0.3:
        for j in range(rnd.choice([1, 1, 2])):
            gate = None
            if rnd.random() < 0.75:
                if rnd.random() < 0.5:
                    gate = add(dict(kind='poke', width=1, pool=[0, 1], p=rnd.choice([0.3, 0.6])))
                else:
                    gate = add(dict(kind='seq', width=1, values=_runs(rnd, [0, 1], max(2, min(ncyc, 40))), once=False, nodom=True))
            w = _width(rnd)
            own = add(dict(kind='seq', width=w, values=_runs(rnd, _pool(rnd, w), rnd.randint(2, 20)), once=False, dom=j))
            domains.append(dict(pos=rnd.choice(['first', 'first', 'last']), gate=gate, own=own))
        for sp in wires:
            if sp['kind'] in ('seq', 'reg', 'counter') and 'dom' not in sp and not sp.get('nodom') and rnd.random() < 0.4:
                sp['dom'] = rnd.randrange(len(domains))
    # a clock driver attached directly to a LEAF (a Sequence / Reg that sits in the same parent block as the recorder), gated by a
    # wire that closes or ungated; in the planned order that leaf is often the first clockable of the block
    leafclk = []
    if rnd.random() < 0.25:
        cands = [i for i, sp in enumerate(wires) if sp['kind'] in ('seq', 'reg') and 'dom' not in sp and not sp.get('nodom')]
        if not cands:
            w = _width(rnd)
            cands = [add(dict(kind='seq', width=w, values=_runs(rnd, _pool(rnd, w), rnd.randint(2, 20)), once=False))]
        for i in rnd.sample(cands, min(len(cands), rnd.choice([1, 1, 2]))):
            gate = None
            if rnd.random() < 0.8:
                if rnd.random() < 0.5:
                    gate = add(dict(kind='poke', width=1, pool=[0, 1], p=rnd.choice([0.3, 0.6])))
                else:
                    gate = add(dict(kind='seq', width=1, values=_runs(rnd, [0, 1], max(2, min(ncyc, 40))), once=False, nodom=True))
            wires[i]['leafclk'] = dict(gate=gate)
            leafclk.append(i)
    nw = len(wires)
    has_out = [i for i in range(nw) if wires[i]['kind'] != 'poke']
    buf_src = {}
    for i, s in enumerate(wires):
        if s['kind'] in ('buf', 'reg', 'not'):
            buf_src.setdefault(s['src'], i)

    def forms(i):
        f = ['wire', 'pin']            # pin = InPort of the probe placed before the Waveform
        if i in has_out:
            f.append('out')            # OutPort of the driving block
        if i in buf_src:
            f.append('sink')           # InPort of a Buf/Reg/Not fed by this wire
        return f

    watch = []
    for _ in range(rnd.randint(1, 6)):
        i = rnd.randrange(nw)
        watch.append(dict(wire=i, form=rnd.choice(forms(i) + ['wire'])))
    if rnd.random() < 0.5:
        watch.append(dict(rnd.choice(watch)))                       # exact duplicate (same object twice)
    if rnd.random() < 0.5:
        e = rnd.choice(watch)
        other = [f for f in forms(e['wire']) if f != e['form']]
        watch.append(dict(wire=e['wire'], form=rnd.choice(other)))  # alias: same wire through another object
    if rnd.random() < 0.25:
        watch.append(dict(rnd.choice(watch)))
    rnd.shuffle(watch)

    # order of the leaves under the top: the two probes bracket the Waveform, drivers go anywhere
    blocks = ['d%d' % i for i in range(nw) if wires[i]['kind'] != 'poke']
    layout = list(blocks)
    rnd.shuffle(layout)
    cut = rnd.randint(0, len(layout))
    tight = rnd.random() < 0.5
    if tight:
        layout = layout[:cut] + ['pb', 'wf', 'pa'] + layout[cut:]
    else:
        layout.insert(cut, 'wf')
        k = layout.index('wf')
        layout.insert(rnd.randint(0, k), 'pb')
        k = layout.index('wf')
        layout.insert(rnd.randint(k + 1, len(layout)), 'pa')

    if leafclk and rnd.random() < 0.6:
        first_ = 'd%d' % rnd.choice(leafclk)
        layout.remove(first_)
        layout.insert(0, first_)
    steps = []
    pokew = [i for i in range(nw) if wires[i]['kind'] == 'poke']
    cur = {i: None for i in pokew}
    remaining = ncyc
    first = True
    while remaining > 0:
        n = min(remaining, rnd.choice([1, 1, 1, 1, 2, 2, 3, 4, 5, 7, 9, rnd.randint(1, 40)]))
        pokes = []
        for i in pokew:
            if (first and rnd.random() < 0.7) or rnd.random() < wires[i]['p']:
                v = rnd.choice(wires[i]['pool'])
                pokes.append([i, v])
                cur[i] = v
        first = False
        steps.append(dict(op='clk', n=n, pokes=pokes))
        remaining -= n
        r = rnd.random()
        if r < 0.04:
            steps.append(dict(op='clk', n=0, pokes=[]))
        elif r < 0.10:
            steps.append(dict(op='check', short=rnd.random() < 0.5))
    if ncyc == 0 and rnd.random() < 0.5:
        steps.append(dict(op='clk', n=0, pokes=[]))
    # clear() somewhere in the middle (0-2 times), sometimes checked immediately afterwards (zero cycles after clear)
    for _ in range(rnd.choice([0, 0, 1, 1, 2])):
        k = rnd.randint(0, len(steps))
        ins = [dict(op='check', short=rnd.random() < 0.5)] if rnd.random() < 0.6 else []
        ins.append(dict(op='clear'))
        if rnd.random() < 0.4:
            ins.append(dict(op='check', short=rnd.random() < 0.5))
        steps[k:k] = ins
    steps.append(dict(op='check', short=False))
    steps.append(dict(op='check', short=True))
    nest = rnd.random() < 0.25
    # rows that are not wires (py4hw.FieldInspector / a ValueFormatter subclass) at any position of the watch list: first,
    # between wires of either format class, last, repeated.  They watch a harness-owned attribute that changes between clk() calls.
    if rnd.random() < 0.3:
        for _ in range(rnd.choice([1, 1, 2, 3])):
            watch.insert(rnd.randint(0, len(watch)), dict(wire=None, form=rnd.choice(['fi', 'fi', 'vf'])))
        tpool = rnd.sample([0, 3, 9, 10, 12, 31, 255, 4096, 48879, 1 << 40], rnd.randint(2, 4))
        for st in steps:
            if st['op'] == 'clk' and rnd.random() < 0.4:
                st['tag'] = rnd.choice(tpool)
    # creation history: the recorder is attached to a system whose simulator already exists (created explicitly and run for a
    # few cycles, and/or created by a py4hw.Scope), then the simulator is refreshed with HWSystem.getSimulator()
    # stimulus written as Python bools (comparison results, True/False constants) on 1-bit wires
    for sp in wires:
        if sp['width'] == 1 and sp['kind'] in ('poke', 'seq') and rnd.random() < 0.3:
            sp['asbool'] = True
    # parent of the recorder: the system / a structural block (default) or a primitive (a Buf leaf)
    wfparent = 'primitive' if rnd.random() < 0.15 else None
    attach = None
    if rnd.random() < 0.25:
        attach = dict(warm=rnd.choice([0, 1, 2, 5]), scope=rnd.random() < 0.4)
    return dict(wires=wires, watch=watch, layout=layout, nest=nest, steps=steps, domains=domains, attach=attach, wfparent=wfparent)


def add_clock_names(rnd, plan):
    """driver NAMES are free labels: an extra clock driver (of a domain box, of a leaf, of the recorder's own block) may carry the name
    of the system default driver or the name of another extra driver; the objects stay distinct domains.  And the recorder's own
    block may sit in a gated domain (gate = a Sequence outside that block).  Drawn from a stream of its own: the rest of the plan
    is what it was."""
    extra = [d for d in plan.get('domains') or []] + [sp['leafclk'] for sp in plan['wires'] if sp.get('leafclk')]
    r = rnd.random()
    if r < 0.12 or (not extra and r < 0.2):
        ncyc = sum(st.get('n', 0) for st in plan['steps'])
        plan['wires'].append(dict(kind='seq', width=1, values=_runs(rnd, [0, 1, 1], max(2, min(ncyc, 40))), once=False, nodom=True, athw=True,
                                  name='w%d' % len(plan['wires']), scope=0))
        plan['wfdom'] = dict(gate=len(plan['wires']) - 1)
        plan['nest'] = True
        extra.append(plan['wfdom'])
    if extra and rnd.random() < 0.6:
        # 'system' = the default driver's name; 'shared' = one label used by every driver so marked
        mode = rnd.choice(['system', 'system', 'shared', 'mixed'])
        for d in extra:
            if rnd.random() < 0.8:
                d['drvname'] = rnd.choice(['system', 'shared']) if mode == 'mixed' else mode
        if mode == 'shared' and len(extra) == 1:
            extra[0]['drvname'] = 'system'
    return plan


def add_wide_enables(rnd, plan):
    """enable wires are not only 1 bit wide: the enable of any extra driver (domain box, leaf, the recorder's own block) may be a
    2, 3 or 8 bit wire (a pending-request count, a mode word) whose history takes 0, 1, 2, 3 and the all-ones value.  The zeros of
    the original 1-bit history stay zeros, every non-zero sample becomes one of the non-zero values of the wider wire.  Drawn from a
    stream of its own: the rest of the plan is what it was."""
    wires = plan['wires']
    gates = [d['gate'] for d in plan.get('domains') or []] + [sp['leafclk']['gate'] for sp in wires if sp.get('leafclk')]
    if plan.get('wfdom'):
        gates.append(plan['wfdom']['gate'])
    for g in sorted({g for g in gates if g is not None}):
        sp = wires[g]
        if sp['width'] != 1 or rnd.random() < 0.4:
            continue
        w = rnd.choice([2, 2, 3, 8])
        nz = sorted({1, 2, 3, (1 << w) - 1, (1 << w) - 2})
        nz = rnd.sample(nz, rnd.randint(2, len(nz)))
        if all(v < 2 for v in nz):
            nz.append(rnd.choice([2, 3, (1 << w) - 1]))
        sp['width'] = w
        sp['wide_enable'] = True
        sp.pop('asbool', None)
        if sp['kind'] == 'seq':
            sp['values'] = [0 if v == 0 else rnd.choice(nz) for v in sp['values']]
        else:
            sp['pool'] = [0] + nz
            for st in plan['steps']:
                for pk in st.get('pokes') or []:
                    if pk[0] == g and pk[1] != 0:
                        pk[1] = rnd.choice(nz)
    return plan


# --------------------------------------------------------------------------- execution + judgement

def _classes():
    import py4hw

    class Probe(py4hw.Logic):
        """Harness clockable: records Wire.get() of every wire in the clocking phase (pre-edge values)."""

        def __init__(self, parent, name, wires, prefix):
            super().__init__(parent, name)
            self.ws = [self.addIn(prefix + w.name, w) for w in wires]
            self.rec = [[] for _ in wires]
            self.calls = 0

        def clock(self):
            self.calls += 1
            for lst, w in zip(self.rec, self.ws):
                lst.append(w.get())

        def reset(self):
            self.rec = [[] for _ in self.ws]

    class Box(py4hw.Logic):
        """Structural wrapper so that the recorder and its probes can live one level down."""
        pass

    class Fmt(py4hw.ValueFormatter):
        """Custom-visualisation row: shows a harness-owned attribute as text."""

        def __init__(self, obj, field):
            self.obj, self.field, self.name = obj, field, 'fmt_' + field

        def get(self):
            return 'v%d' % getattr(self.obj, self.field)

        def getFullPath(self):
            return self.obj.getFullPath() + '/' + self.name

    return Probe, Box, Fmt


class Bad(Exception):
    def __init__(self, key, fields, expected=None, observed=None, what=''):
        super().__init__(what)
        self.key, self.fields, self.expected, self.observed, self.what = key, fields, expected, observed, what


def _relation(exp, obs):
    if not isinstance(obs, list):
        return 'not_a_list'
    if len(obs) != len(exp):
        return 'length%+d' % (len(obs) - len(exp))
    if len(exp) > 1 and obs[:-1] == exp[1:]:
        return 'post_edge_values'
    return 'values_differ'


def _nontrivial(lst):
    return len(set(lst)) >= 2 and any(a == b for a, b in zip(lst, lst[1:]))


def run_plan(plan, stats=None):
    """Build the planned design on the real py4hw, run the steps, judge every checkpoint.
    Returns (n_evaluations, nontrivial?, harness_problems); raises Bad on the first violated clause."""
    import py4hw
    Probe, Box, Fmt = _classes()
    stats = stats if stats is not None else {}

    def cnt(k, n=1):
        stats[k] = stats.get(k, 0) + n

    specs = plan['wires']
    hw = py4hw.HWSystem()
    top = Box(hw, 'box') if plan.get('nest') else hw
    side = Box(hw, 'side')
    ws = [(side if s.get('scope') else top).wire(s['name'], s['width']) for s in specs]
    blocks = {}
    doms = []
    gates = []
    named = []          # (driver name, gate wire or None) of every extra driver: which names are shared is evidence

    def drvname(d, default):
        n = {None: default, 'system': hw.clockDriver.name, 'shared': 'gclk'}[d.get('drvname')]
        named.append((n, ws[d['gate']] if d['gate'] is not None else None))
        return n

    for j, dsp in enumerate(plan.get('domains') or []):
        b = Box(hw, 'dom%d' % j)
        g = ws[dsp['gate']] if dsp['gate'] is not None else None
        b.clockDriver = py4hw.ClockDriver(drvname(dsp, 'clk%d' % (j + 2)), base=hw.clockDriver, enable=g, wire=hw.wire('clk%dw' % (j + 2)))
        doms.append(b)
        if g is not None:
            gates.append(g)
    wfgate = None
    if plan.get('wfdom'):
        # the block that holds the recorder (and its probes) is a gated clock domain of its own
        wfgate = ws[plan['wfdom']['gate']]
        top.clockDriver = py4hw.ClockDriver(drvname(plan['wfdom'], 'clkrec'), base=hw.clockDriver, enable=wfgate, wire=hw.wire('clkrecw'))
        gates.append(wfgate)
    in_dom = set()
    for i, s in enumerate(specs):
        k, nm = s['kind'], 'd%d' % i
        par = top
        if s.get('dom') is not None and k in ('seq', 'reg', 'counter'):
            par = doms[s['dom']]
            in_dom.add(nm)
        if s.get('athw'):
            par = hw
            in_dom.add(nm)
        if k == 'seq':
            blocks[nm] = py4hw.Sequence(par, nm, [bool(v) for v in s['values']] if s.get('asbool') else list(s['values']), ws[i], once=bool(s.get('once')))
        elif k == 'buf':
            blocks[nm] = py4hw.Buf(top, nm, ws[s['src']], ws[i])
        elif k == 'not':
            blocks[nm] = py4hw.Not(top, nm, ws[s['src']], ws[i])
        elif k == 'reg':
            blocks[nm] = py4hw.Reg(par, nm, d=ws[s['src']], q=ws[i])
        elif k == 'counter':
            blocks[nm] = py4hw.Counter(par, nm, ws[s['reset']], ws[s['inc']], ws[i])
        if s.get('leafclk'):
            g = ws[s['leafclk']['gate']] if s['leafclk']['gate'] is not None else None
            blocks[nm].clockDriver = py4hw.ClockDriver(drvname(s['leafclk'], 'lclk%d' % i), base=hw.clockDriver, enable=g, wire=hw.wire('lclk%dw' % i))
            if g is not None:
                gates.append(g)
    pb = Probe(top, 'pb', ws, 'p_')
    side.tag = 0
    fi = py4hw.FieldInspector(side, 'tag')
    vf = Fmt(side, 'tag')

    objs = []
    for e in plan['watch']:
        i, f = e['wire'], e['form']
        if i is None:
            objs.append(fi if f == 'fi' else vf)
            continue
        if f == 'wire':
            o = ws[i]
        elif f == 'pin':
            o = pb.inPorts[i]
        elif f == 'out':
            o = blocks['d%d' % i].outPorts[0] if specs[i]['kind'] != 'counter' else blocks['d%d' % i].getOutPortByName('q')
        else:
            j = [x for x, s in enumerate(specs) if s['kind'] in ('buf', 'reg', 'not') and s['src'] == i][0]
            o = blocks['d%d' % j].inPorts[0]
        if f != 'wire' and o.wire is not ws[i]:
            raise RuntimeError('harness: port %s is not on wire %s' % (o.getFullPath(), ws[i].name))
        objs.append(o)
    late = plan.get('attach')
    pa = None
    if late:
        # the system (drivers, probes) exists and is simulated before the recorder is created
        pa = Probe(top, 'pa', ws, 'q_')
        try:
            if late['scope']:
                py4hw.Scope(top, 'scope', [ws[0]])          # its constructor creates the simulator
            sim0 = hw.getSimulator()
            sim0.clk(late['warm'])
        except Exception as ex:
            raise RuntimeError('harness: warm-up before attaching the recorder failed: %r' % (ex,))
        pb.reset()
        pa.reset()
        pb.calls = pa.calls = 0
    host = None
    if plan.get('wfparent') == 'primitive':
        host = py4hw.Buf(top, 'wfhost', ws[0], top.wire('wfhost_r', specs[0]['width']))
    try:
        wf = py4hw.Waveform(host if host is not None else top, 'wf', list(objs))
    except Exception as ex:
        raise Bad('raises', dict(stage='construct'), observed=repr(ex)[:200], what='Waveform(...) raises %r' % (ex,))
    if pa is None:
        pa = Probe(top, 'pa', ws, 'q_')
    every = dict(blocks, pb=pb, wf=(host if host is not None else wf), pa=pa)
    order_ = {every[k].name: every[k] for k in plan['layout'] if k not in in_dom}               # the planned visiting order of the leaves
    for k, v in top.children.items():
        if k not in order_:
            order_[k] = v
    top.children = order_
    if doms:
        # the other domains' leaves are registered (and their drivers visited) before or after the recorder's
        pos = [d['pos'] for d in plan['domains']]
        rest = [(k, v) for k, v in hw.children.items() if v not in doms]
        hw.children = dict([(b.name, b) for b, p_ in zip(doms, pos) if p_ == 'first'] + rest + [(b.name, b) for b, p_ in zip(doms, pos) if p_ == 'last'])
    sim = hw.getSimulator()
    # reference = the value every wire carries when a cycle starts (going into the clock edge), taken by a wrapper
    # around Simulator._clk_cycle; the probes around the recorder are a cross-check of the clocking-phase view
    pre = [[] for _ in ws]
    tags = []
    real_cycle = sim._clk_cycle

    names = [hw.clockDriver.name] + [n for n, g in named]
    samename_gates = [g for n, g in named if g is not None and names.count(n) > 1]
    if any(names.count(n) > 1 for n in names):
        cnt('recordings_with_two_drivers_of_one_name')
    open_cycles = [0]

    def cycle_with_snapshot():
        if samename_gates and any(g.get() == 0 for g in samename_gates):
            cnt('cycles_with_gate_closed_on_a_driver_sharing_its_name')
        if gates and any(g.get() >= 2 for g in gates):
            cnt('cycles_with_a_clock_enable_value_ge_2')
        if wfgate is not None:
            if wfgate.get() >= 2:
                # non-zero enable: the recorder's domain has an edge, whatever the non-zero value is
                cnt('cycles_recorder_domain_open_with_enable_value_ge_2')
            if wfgate.get() == 0:
                # no edge in the recorder's own domain: not a cycle of this recorder
                cnt('cycles_recorder_domain_gated_off')
                return real_cycle()
            cnt('cycles_recorder_domain_open')
        open_cycles[0] += 1
        for lst, w in zip(pre, ws):
            lst.append(w.get())
        tags.append(side.tag)
        if gates:
            closed = sum(1 for g in gates if g.get() == 0)
            if closed:
                cnt('cycles_with_a_clock_gate_closed')
            if closed > 1:
                cnt('cycles_with_two_clock_gates_closed')
        return real_cycle()
    sim._clk_cycle = cycle_with_snapshot
    import types
    ref = types.SimpleNamespace(rec=pre, tags=tags)
    order = list(top.children.values())     # the order in which the simulator registers (and clocks) the children of the block
    if not (order.index(pb) < order.index(host if host is not None else wf) < order.index(pa)):
        raise RuntimeError('harness: probes do not bracket the Waveform in the leaf order')
    for drv in sim.clockDrivers.values():
        if pb in drv.clockables and wf in drv.clockables:
            c = drv.clockables
            if not (pa in c and c.index(pb) < c.index(wf) < c.index(pa)):
                raise RuntimeError('harness: probes do not bracket the Waveform in the clockable order')

    poked = {i: 0 for i, s in enumerate(specs) if s['kind'] == 'poke'}
    model = {i: [] for i in poked}          # what the harness itself put on the poked wires, per cycle
    total = 0                                # cycles since construction
    since = 0                                # cycles since the last clear()
    nev = 0
    nontriv = False
    problems = []
    for st in plan['steps']:
        op = st['op']
        if op == 'clk':
            for i, v in st['pokes']:
                ws[i].put((v > 0) if specs[i].get('asbool') else v)
                poked[i] = v
            if 'tag' in st:
                side.tag = st['tag']
            try:
                sim.clk(st['n'])
            except Exception as ex:
                raise Bad('raises', dict(stage='clk'), observed=repr(ex)[:200], what='clk(%d) raises %r' % (st['n'], ex))
            total += st['n']
            since += st['n']
            for i in poked:
                model[i] += [poked[i]] * st['n']
            cnt('cycles', st['n'])
            cnt('clk_calls')
        elif op == 'clear':
            try:
                wf.clear()
            except Exception as ex:
                raise Bad('raises', dict(stage='clear'), observed=repr(ex)[:200], what='clear() raises %r' % (ex,))
            pb.reset()
            pa.reset()
            for lst in pre:
                del lst[:]
            del tags[:]
            model = {i: [] for i in poked}
            since = 0
            cnt('clears')
        else:
            # ---- the verdict: recorder against the per-cycle snapshot taken when each simulated cycle starts
            cnt('checkpoints')
            if since == 0:
                cnt('checkpoints_zero_cycles')
            nev += _judge(plan, wf, objs, ws, ref, since if wfgate is None else len(tags), bool(st.get('short')), cnt)
            # ---- harness cross-checks (a failure here is a harness/simulator problem, not a C15 verdict)
            if pb.calls != open_cycles[0] or pa.calls != open_cycles[0]:
                problems.append('probe clocked %d/%d times in %d cycles of its domain (%d simulated)' % (pb.calls, pa.calls, open_cycles[0], total))
            if wfgate is None and open_cycles[0] != total:
                problems.append('cycle wrapper saw %d cycles, %d requested' % (open_cycles[0], total))
            if pb.rec != pa.rec:
                problems.append('probe before and probe after the Waveform disagree')
            for i in poked:
                if wfgate is None and pb.rec[i] != model[i]:
                    problems.append('probe does not see the poked values on %s' % specs[i]['name'])
            if problems:
                return nev, nontriv, problems
            if pb.rec != pre:
                cnt('probe_view_differs_from_pre_cycle_snapshot')
            if any(_nontrivial(pre[e['wire']]) for e in plan['watch'] if e['wire'] is not None):
                nontriv = True
    return nev, nontriv, problems


def _judge(plan, wf, objs, ws, pb, ncycles, short, cnt):
    specs, watch = plan['wires'], plan['watch']
    # -- clause 1: getDict() holds exactly the per-cycle pre-edge samples of every watched wire
    try:
        d = wf.getDict()
    except Exception as ex:
        raise Bad('raises', dict(stage='getDict'), observed=repr(ex)[:200], what='getDict() raises %r' % (ex,))
    seen = set()
    for k, e in enumerate(watch):
        i = e['wire']
        if i is None:
            exp = list(pb.tags) if e['form'] == 'fi' else ['v%d' % t for t in pb.tags]
            try:
                obs = d[objs[k]]
            except Exception as ex:
                raise Bad('getdict_missing_wire', dict(clause='getDict', form=e['form']), observed=repr(ex)[:120],
                          what='getDict() has no entry for watch entry %d (%s)' % (k, e['form']))
            if obs != exp:
                rel = _relation(exp, obs)
                raise Bad('getdict_samples', dict(clause='getDict', form=e['form'], relation=rel), expected=exp, observed=obs,
                          what='getDict()[%s row] differs from the attribute values of %d cycles (%s)' % (e['form'], ncycles, rel))
            continue
        exp = pb.rec[i]
        dup = (i in seen)
        seen.add(i)
        fields = dict(clause='getDict', form=e['form'], repeated_wire=dup, wide=specs[i]['width'] > 1)
        try:
            obs = d[ws[i]]
        except Exception as ex:
            raise Bad('getdict_missing_wire', fields, observed=repr(ex)[:120],
                      what='getDict() has no entry for watched wire %s (entry %d, %s)' % (specs[i]['name'], k, e['form']))
        if obs != exp:
            rel = _relation(exp, obs)
            raise Bad('getdict_samples', dict(fields, relation=rel), expected=exp, observed=obs,
                      what='getDict()[%s] differs from the pre-edge samples of %d cycles (%s)' % (specs[i]['name'], ncycles, rel))
    # -- clause 2: the WaveDrom rendering decodes back to the same samples
    try:
        wd = wf.get_wavedrom(shortNames=short)
        sig = wd['signal']
    except Exception as ex:
        raise Bad('raises', dict(stage='get_wavedrom', exc=type(ex).__name__), observed=repr(ex)[:200],
                  what='get_wavedrom(shortNames=%r) raises %r' % (short, ex))
    if len(sig) != len(watch) + 1:
        raise Bad('wavedrom_entries', dict(relation='count%+d' % (len(sig) - 1 - len(watch))), expected=len(watch), observed=len(sig) - 1,
                  what='rendering has %d signal lanes for a watch list of %d entries' % (len(sig) - 1, len(watch)))
    try:
        n = decode_clock_lane(sig[0].get('wave'))
    except DecodeError as ex:
        raise Bad('wavedrom_clock_lane', dict(relation='format'), expected='P' + '.' * ncycles + 'x', observed=sig[0].get('wave'), what=str(ex))
    if n != ncycles:
        raise Bad('wavedrom_clock_lane', dict(relation='span%+d' % (n - ncycles)), expected=ncycles, observed=n,
                  what='clock lane spans %d cycles, %d were recorded' % (n, ncycles))
    nev = 0
    for k, e in enumerate(watch):
        i = e['wire']
        lane = sig[k + 1]
        name = objs[k].name if short else objs[k].getFullPath()
        if lane.get('name') != name:
            raise Bad('wavedrom_entries', dict(relation='name', short=short, form=e['form']), expected=name, observed=lane.get('name'),
                      what='lane %d is named %r, watch entry %d is %r' % (k, lane.get('name'), k, name))
        if i is None:
            # non-wire row: labels in that row's own format ('{}'), run-length dots, one slot per cycle
            exp = ['{}'.format(t) if e['form'] == 'fi' else 'v%d' % t for t in pb.tags]
            fields = dict(clause='wavedrom', form=e['form'])
            try:
                got = decode_label_lane(lane.get('wave'), lane.get('data'))
            except DecodeError as ex:
                raise Bad('wavedrom_decode', dict(fields, relation='undecodable'), expected=exp, observed=dict(wave=lane.get('wave'), data=lane.get('data')),
                          what='lane %d (%s row): %s' % (k, e['form'], ex))
            if got != exp:
                rel = _relation(exp, got)
                raise Bad('wavedrom_decode', dict(fields, relation=rel), expected=exp, observed=dict(decoded=got, wave=lane.get('wave'), data=lane.get('data')),
                          what='lane %d (%s row) does not show the recorded values in its own {} format (%s)' % (k, e['form'], rel))
            nev += 1
            cnt('lanes_decoded')
            cnt('form_' + e['form'])
            continue
        width = specs[i]['width']
        exp = pb.rec[i]
        fields = dict(clause='wavedrom', form=e['form'], wide=width > 1)
        try:
            got, unused = decode_lane(lane.get('wave'), lane.get('data'), width)
        except DecodeError as ex:
            raise Bad('wavedrom_decode', dict(fields, relation='undecodable'), expected=exp, observed=dict(wave=lane.get('wave'), data=lane.get('data')),
                      what='lane %d (%s, %d bits): %s' % (k, specs[i]['name'], width, ex))
        if unused:
            cnt('unused_data_labels', unused)
        if got != exp:
            rel = _relation(exp, got)
            raise Bad('wavedrom_decode', dict(fields, relation=rel), expected=exp, observed=dict(decoded=got, wave=lane.get('wave'), data=lane.get('data')),
                      what='lane %d (%s, %d bits) decodes to other samples than recorded (%s)' % (k, specs[i]['name'], width, rel))
        nev += 1
        cnt('lanes_decoded')
        cnt('lane_dots', lane['wave'].count('.'))
        cnt('form_' + e['form'])
    return nev


def _features(plan):
    f = set()
    allw = plan['watch']
    if any(e['wire'] is None for e in allw):
        f.add('inspector_rows')
        pos = [k for k, e in enumerate(allw) if e['wire'] is None]
        if pos[0] == 0:
            f.add('inspector_first')
        if pos[-1] == len(allw) - 1:
            f.add('inspector_last')
        for k in pos:
            if 0 < k < len(allw) - 1:
                f.add('inspector_between')
            if k > 0 and allw[k - 1]['wire'] is not None:
                f.add('inspector_after_1bit_wire' if plan['wires'][allw[k - 1]['wire']]['width'] == 1 else 'inspector_after_wide_wire')
    ex_ = [(d, 'domain_' + ('before' if d['pos'] == 'first' else 'after')) for d in plan.get('domains') or []] + \
          [(sp['leafclk'], 'leaf') for sp in plan['wires'] if sp.get('leafclk')] + ([(plan['wfdom'], 'recorder_block')] if plan.get('wfdom') else [])
    for d, where in ex_:
        if d.get('drvname') == 'system' or (d.get('drvname') == 'shared' and sum(1 for d2, _ in ex_ if d2.get('drvname') == 'shared') > 1):
            f.add('same_name_%s_driver_on_%s_%s' % ('gated' if d['gate'] is not None else 'ungated', where,
                                                    'named_as_system_driver' if d['drvname'] == 'system' else 'named_as_another_driver'))
            if d['gate'] is not None and where != 'recorder_block' and not plan.get('wfdom'):
                f.add('recorder_in_ungated_domain_with_gated_same_name_driver_elsewhere')
    for d, where in ex_:
        if d['gate'] is not None and plan['wires'][d['gate']].get('wide_enable'):
            f.add('enable_wire_wider_than_1_bit_on_%s' % where)
            f.add('enable_wire_%d_bits' % plan['wires'][d['gate']]['width'])
    if plan.get('wfdom'):
        f.add('recorder_in_gated_domain')
        if plan['wfdom'].get('drvname'):
            f.add('recorder_in_gated_domain_whose_driver_shares_a_name')
    for dsp in plan.get('domains') or []:
        f.add('extra_clock_domain')
        if dsp['gate'] is not None:
            f.add('gated_domain_instantiated_%s' % ('before_recorder_domain' if dsp['pos'] == 'first' else 'after_recorder_domain'))
    if sum(1 for dsp in plan.get('domains') or [] if dsp['gate'] is not None) >= 2:
        f.add('two_gated_domains')
    lay_ = [x for x in plan['layout'] if not (x[0] == 'd' and plan['wires'][int(x[1:])].get('dom') is not None)]
    for i, sp in enumerate(plan['wires']):
        if sp.get('leafclk'):
            f.add('leaf_with_own_clock_driver')
            if sp['leafclk']['gate'] is not None:
                f.add('leaf_with_own_gated_driver')
                clocked = [x for x in lay_ if x in ('pb', 'wf', 'pa') or plan['wires'][int(x[1:])]['kind'] in ('seq', 'reg', 'counter')]
                if clocked and clocked[0] == 'd%d' % i:
                    f.add('leaf_with_own_gated_driver_is_first_clockable_of_recorder_block')
    if plan.get('wfparent'):
        f.add('recorder_under_a_primitive')
    if any(sp.get('asbool') and any(e['wire'] == i for e in allw) for i, sp in enumerate(plan['wires'])):
        f.add('watched_1bit_wire_written_with_bools')
    if plan.get('attach'):
        f.add('late_attach')
        f.add('late_attach_after_scope' if plan['attach']['scope'] else 'late_attach_after_warmup')
    plan = dict(plan, watch=[e for e in allw if e['wire'] is not None])
    ws = [e['wire'] for e in plan['watch']]
    ents = [(e['wire'], e['form']) for e in plan['watch']]
    if len(set(ents)) < len(ents):
        f.add('duplicate_entry')
    if any(len({fm for w2, fm in ents if w2 == w}) > 1 for w in ws):
        f.add('port_wire_alias')
    if any(s['op'] == 'clear' for s in plan['steps']):
        f.add('clear')
    if sum(s.get('n', 0) for s in plan['steps']) == 0:
        f.add('zero_cycles')
    if plan.get('nest'):
        f.add('nested')
    nm = {}
    for e in plan['watch']:
        nm.setdefault(plan['wires'][e['wire']]['name'], set()).add(e['wire'])
    if any(len(v) > 1 for v in nm.values()):
        f.add('same_short_name_two_wires')
    for e in plan['watch']:
        f.add('driver_' + plan['wires'][e['wire']]['kind'])
        w = plan['wires'][e['wire']]['width']
        f.add('width_1' if w == 1 else 'width_2_32' if w <= 32 else 'width_33_64')
    lay = plan['layout']
    if any(x.startswith('d') for x in lay[:lay.index('wf')]):
        f.add('driver_clocked_before_recorder')
    if any(x.startswith('d') for x in lay[lay.index('wf'):]):
        f.add('driver_clocked_after_recorder')
    return f


NEED_FEATURES = ('duplicate_entry', 'port_wire_alias', 'clear', 'zero_cycles', 'late_attach', 'inspector_between',
                 'gated_domain_instantiated_before_recorder_domain', 'gated_domain_instantiated_after_recorder_domain', 'two_gated_domains',
                 'leaf_with_own_gated_driver_is_first_clockable_of_recorder_block',
                 'recorder_under_a_primitive', 'watched_1bit_wire_written_with_bools',
                 'same_name_gated_driver_on_domain_before_named_as_system_driver', 'same_name_gated_driver_on_domain_after_named_as_system_driver',
                 'same_name_gated_driver_on_leaf_named_as_system_driver', 'same_name_gated_driver_on_domain_before_named_as_another_driver',
                 'recorder_in_ungated_domain_with_gated_same_name_driver_elsewhere', 'recorder_in_gated_domain',
                 'recorder_in_gated_domain_whose_driver_shares_a_name',
                 'enable_wire_wider_than_1_bit_on_recorder_block', 'enable_wire_wider_than_1_bit_on_domain_before', 'enable_wire_wider_than_1_bit_on_domain_after',
                 'enable_wire_wider_than_1_bit_on_leaf', 'enable_wire_2_bits', 'enable_wire_3_bits', 'enable_wire_8_bits')
NEED_COUNTERS = ('lanes_decoded', 'checkpoints', 'cycles', 'cycles_with_gate_closed_on_a_driver_sharing_its_name',
                 'cycles_recorder_domain_gated_off', 'cycles_recorder_domain_open',
                 'cycles_recorder_domain_open_with_enable_value_ge_2', 'cycles_with_a_clock_enable_value_ge_2')


def run_check(run, tier, seed, shard):
    run.assume('clock driver names are free labels: two ClockDriver objects with the same name (also the system default driver\'s name) are two '
               'domains; the recorder is clocked by the driver of its nearest ancestor, whatever other drivers are called')
    run.assume('a recorder whose own block is a gated clock domain has one simulated cycle per edge of that domain: a cycle before which its '
               'domain\'s enable read 0 is not a cycle of this recorder (weakest reading, consistent with C10: the domain holds); every other '
               'cycle must give exactly one sample')
    run.assume('an enable wire of any width gates its domain only while it reads 0 (ClockDriver: "When enable is 0, the clock will be gated"; C10: non-zero): '
               'a cycle belongs to the recorder iff its own domain\'s enable was NON-ZERO going into the edge, also for values 2, 3, all-ones')
    run.assume('pre-edge value = what a clockable placed next to the recorder reads with Wire.get() in the clocking phase of the same '
               '_clk_cycle; the probes before and after the Waveform must agree (else inconclusive)')
    run.assume('WaveDrom format decoded as rendered by get_wavedrom: lanes x<one char per cycle>x; clock lane P<one dot per cycle>x; '
               'labels upper-case hex without prefix ({:X}); lane names = getFullPath() of the watch-list object, or its .name with shortNames=True')
    run.assume('a bare Wire instead of a list is outside the accepted configurations (the constructor calls len() on it)')
    total = RECORDINGS[tier]
    idx = list(range(total))
    if shard is not None:
        idx = [k for k in idx if k % shard[1] == shard[0]]
    deadline = time.time() + (400 if tier == 'quick' else 2400)
    stats = {}
    feats = {}
    done = 0
    for k in idx:
        if time.time() > deadline:
            run.inconclusive.append('watchdog: %d of %d recordings not run' % (len(idx) - done, len(idx)))
            break
        rnd = rng(seed, 'C15', k)
        plan = add_clock_names(rng(seed, 'C15', 'clocknames', k), gen_plan(rnd))
        plan = add_wide_enables(rng(seed, 'C15', 'wideenable', k), plan)
        try:
            with muted():
                nev, nontriv, problems = run_plan(plan, stats)
        except Bad as b:
            run.ev()
            run.violation(b.key, b.fields, dict(plan=plan), expected=b.expected, observed=b.observed, what=b.what)
            if run.too_many:
                break
            done += 1
            continue
        done += 1
        if problems:
            run.inconclusive.append('recording %d: %s' % (k, problems[0]))
            continue
        run.ev(nev)
        run.count('recordings')
        for f in _features(plan):
            feats[f] = feats.get(f, 0) + 1
        if nontriv:
            run.nt(stable_hash(plan))
        if k % 97 == 0:
            run.sample(dict(wires=[{a: b for a, b in s.items() if a != 'values'} for s in plan['wires']], watch=plan['watch'],
                            layout=plan['layout'], nest=plan['nest'],
                            steps=[s if s['op'] != 'clk' else dict(op='clk', n=s['n'], pokes=len(s['pokes'])) for s in plan['steps'][:12]],
                            cycles=sum(s.get('n', 0) for s in plan['steps'])))
    for a, b in stats.items():
        run.count(a, b)
    run.extra['recordings_with'] = feats
    if shard is None or shard[0] == 0:
        for need in (NEED_COUNTERS if shard is None else NEED_COUNTERS[:3]):
            if not stats.get(need):
                run.inconclusive.append('monitor observed no %s' % need)
    if shard is None:
        for need in NEED_FEATURES:
            if not feats.get(need):
                run.inconclusive.append('no recording with %s' % need)


def post_merge(run, tier, seed):
    feats = run.extra.get('recordings_with', {})
    for need in NEED_FEATURES:
        if not feats.get(need):
            run.inconclusive.append('no recording with %s' % need)
    for need in NEED_COUNTERS:
        if not run.counters.get(need):
            run.inconclusive.append('monitor observed no %s' % need)


def _unhex(x):
    if isinstance(x, list):
        return [_unhex(y) for y in x]
    if isinstance(x, dict):
        return {k: _unhex(v) for k, v in x.items()}
    if isinstance(x, str) and x.startswith('0x'):
        return int(x, 16)
    return x


def replay(run, case):
    plan = _unhex(case['case']['plan'])
    try:
        with muted():
            nev, nontriv, problems = run_plan(plan, {})
    except Bad as b:
        print('replay: %s %s' % (b.key, b.what))
        print('  expected', b.expected)
        print('  observed', b.observed)
        print('VIOLATION property=C15 replay=replayed key=%s' % b.key)
        return 1
    if problems:
        print('INCONCLUSIVE property=C15 reason=%s' % problems[0])
        return 2
    print('replay: %d lane comparisons, no clause violated' % nev)
    return 0
